// Common machinery of all rapidcheck harnesses.
//
//  * VCase   : a generated case as named fields (doubles in hex-float, ints,
//              strings) -> bit-exact plain-text replay file
//  * VProp   : name + generator (uses rapidcheck) + oracle (pure function of
//              the VCase; this is what --replay calls, bypassing the library)
//  * vmain() : runs every property under rc::check (configured through
//              RC_PARAMS only), records counters / labels / distinct
//              non-trivial cases / samples, writes the shrunk failing case and a
//              partial evidence JSON for the driver (`check`).
//
// Environment (set by the driver):
//   VERIF_OUT      partial evidence JSON to write
//   VERIF_FAILDIR  directory for shrunk failing cases
//   VERIF_ONLY     comma separated property names to run (default all)
//   VERIF_KNOWN    comma separated matcher names of OPEN known findings
//   VERIF_SCALE    multiplier for per-property case counts (double)
//   VERIF_SEED     base seed
#ifndef VERIF_RC_HPP
#define VERIF_RC_HPP

#include <rapidcheck.h>

#include <algorithm>
#include <chrono>
#include <cinttypes>
#include <cstdarg>
#include <cmath>
#include <cstdint>
#include <cstdio>
#include <cstdlib>
#include <cstring>
#include <fstream>
#include <functional>
#include <map>
#include <set>
#include <sstream>
#include <string>
#include <unordered_set>
#include <vector>

namespace vr {

// ---------------------------------------------------------------- generators
inline int64_t irange(int64_t lo, int64_t hi) { // inclusive
  return *rc::gen::resize(100, rc::gen::inRange<int64_t>(lo, hi + 1));
}
inline bool coin(double p = 0.5) {
  return irange(0, 999999) < (int64_t)(p * 1000000.);
}
inline double uni() { // [0,1) from 53 generated bits, shrinks towards 0
  return (double)irange(0, (1ll << 53) - 1) * 0x1p-53;
}
inline double uni(double a, double b) { return a + (b - a) * uni(); }
inline double logu(double a, double b) {
  return std::exp(std::log(a) + (std::log(b) - std::log(a)) * uni());
}
// a "round" number with few mantissa bits (dyadic rational k/2^q in [a,b))
inline double dyadic(double a, double b, int bits = 6) {
  const int64_t n = 1ll << bits;
  return a + (b - a) * (double)irange(0, n - 1) / (double)n;
}
template <typename T> inline const T &pick(const std::vector<T> &v) {
  return v[irange(0, (int64_t)v.size() - 1)];
}
inline int weighted(const std::vector<int> &w) {
  int64_t tot = 0;
  for (int x : w)
    tot += x;
  int64_t r = irange(0, tot - 1);
  for (size_t i = 0; i < w.size(); ++i) {
    if (r < w[i])
      return (int)i;
    r -= w[i];
  }
  return (int)w.size() - 1;
}
inline int cursize() {
  return *rc::gen::withSize([](int s) { return rc::gen::just(s); });
}

// ---------------------------------------------------------------- VCase
inline std::string hexd(double x) {
  char b[64];
  snprintf(b, sizeof b, "%a", x);
  return b;
}

struct VCase {
  std::string prop;
  std::vector<std::pair<std::string, std::vector<double>>> dd;
  std::vector<std::pair<std::string, std::vector<int64_t>>> ii;
  std::vector<std::pair<std::string, std::string>> ss;

  VCase &D(const std::string &n, const std::vector<double> &v) {
    dd.emplace_back(n, v);
    return *this;
  }
  VCase &D(const std::string &n, double v) { return D(n, std::vector<double>{v}); }
  VCase &I(const std::string &n, const std::vector<int64_t> &v) {
    ii.emplace_back(n, v);
    return *this;
  }
  VCase &I(const std::string &n, int64_t v) {
    return I(n, std::vector<int64_t>{v});
  }
  VCase &S(const std::string &n, const std::string &v) {
    ss.emplace_back(n, v);
    return *this;
  }
  const std::vector<double> &dv(const std::string &n) const {
    for (auto &p : dd)
      if (p.first == n)
        return p.second;
    fprintf(stderr, "VCase: missing double field %s\n", n.c_str());
    abort();
  }
  double d(const std::string &n, size_t k = 0) const { return dv(n).at(k); }
  const std::vector<int64_t> &iv(const std::string &n) const {
    for (auto &p : ii)
      if (p.first == n)
        return p.second;
    fprintf(stderr, "VCase: missing int field %s\n", n.c_str());
    abort();
  }
  int64_t i(const std::string &n, size_t k = 0) const { return iv(n).at(k); }
  bool has_i(const std::string &n) const {
    for (auto &p : ii)
      if (p.first == n)
        return true;
    return false;
  }
  bool has_d(const std::string &n) const {
    for (auto &p : dd)
      if (p.first == n)
        return true;
    return false;
  }
  const std::string &s(const std::string &n) const {
    for (auto &p : ss)
      if (p.first == n)
        return p.second;
    fprintf(stderr, "VCase: missing string field %s\n", n.c_str());
    abort();
  }

  static std::string esc(const std::string &s) {
    std::string o;
    char b[8];
    for (unsigned char c : s) {
      if (c == '%' || c < 0x20 || c >= 0x7f) {
        snprintf(b, sizeof b, "%%%02x", c);
        o += b;
      } else
        o += (char)c;
    }
    return o;
  }
  static std::string unesc(const std::string &s) {
    std::string o;
    for (size_t k = 0; k < s.size(); ++k) {
      if (s[k] == '%' && k + 2 < s.size()) {
        o += (char)strtol(s.substr(k + 1, 2).c_str(), nullptr, 16);
        k += 2;
      } else
        o += s[k];
    }
    return o;
  }

  std::string to_text() const {
    std::ostringstream o;
    o << "prop " << prop << "\n";
    for (auto &p : ii) {
      o << "i " << p.first << " " << p.second.size();
      for (auto v : p.second)
        o << " " << v;
      o << "\n";
    }
    for (auto &p : dd) {
      o << "d " << p.first << " " << p.second.size();
      for (auto v : p.second)
        o << " " << hexd(v);
      o << "   #";
      for (auto v : p.second) {
        char b[40];
        snprintf(b, sizeof b, " %.17g", v);
        o << b;
      }
      o << "\n";
    }
    for (auto &p : ss)
      o << "s " << p.first << " " << esc(p.second) << "\n";
    return o.str();
  }
  static VCase from_text(const std::string &text) {
    VCase c;
    std::istringstream in(text);
    std::string line;
    while (std::getline(in, line)) {
      std::istringstream l(line);
      std::string kind, name;
      l >> kind;
      if (kind == "prop") {
        l >> c.prop;
      } else if (kind == "i") {
        size_t n;
        l >> name >> n;
        std::vector<int64_t> v(n);
        for (auto &x : v)
          l >> x;
        c.I(name, v);
      } else if (kind == "d") {
        size_t n;
        l >> name >> n;
        std::vector<double> v(n);
        for (auto &x : v) {
          std::string t;
          l >> t;
          x = strtod(t.c_str(), nullptr);
        }
        c.D(name, v);
      } else if (kind == "s") {
        l >> name;
        std::string rest;
        std::getline(l, rest);
        if (!rest.empty() && rest[0] == ' ')
          rest = rest.substr(1);
        c.S(name, unesc(rest));
      }
    }
    return c;
  }
  uint64_t hash() const {
    uint64_t h = 1469598103934665603ull;
    auto mix = [&](const void *p, size_t n) {
      const unsigned char *b = (const unsigned char *)p;
      for (size_t k = 0; k < n; ++k) {
        h ^= b[k];
        h *= 1099511628211ull;
      }
    };
    mix(prop.data(), prop.size());
    for (auto &p : ii) {
      mix(p.first.data(), p.first.size());
      mix(p.second.data(), p.second.size() * sizeof(int64_t));
    }
    for (auto &p : dd) {
      mix(p.first.data(), p.first.size());
      mix(p.second.data(), p.second.size() * sizeof(double));
    }
    for (auto &p : ss) {
      mix(p.first.data(), p.first.size());
      mix(p.second.data(), p.second.size());
    }
    return h;
  }
};

// ---------------------------------------------------------------- result
struct VResult {
  bool ok = true;
  bool nontrivial = false;
  std::string msg;                 // why it failed
  std::string known;               // matcher name of a known-finding class
  std::vector<std::string> labels; // classification of this case
  // true for failures observed on real, unsynchronised threads: the violation
  // was seen, but re-running the case need not reproduce the interleaving
  bool schedule_dependent = false;
  void fail(const std::string &m) {
    if (ok) {
      ok = false;
      msg = m;
    }
  }
  void label(const std::string &l) { labels.push_back(l); }
};

inline std::string fmt(const char *f, ...) {
  char b[2048];
  va_list ap;
  va_start(ap, f);
  vsnprintf(b, sizeof b, f, ap);
  va_end(ap);
  return b;
}

struct VProp {
  std::string name;
  int quick_cases; // number of cases in the quick tier (scaled by VERIF_SCALE)
  std::function<VCase()> gen;
  std::function<VResult(const VCase &)> oracle;
  std::string rule; // generation + non-triviality rule (goes to the evidence)
  std::map<std::string, double> floors; // label -> minimal fraction of cases
  int max_size = 100;
};

// ---------------------------------------------------------------- JSON
inline std::string jstr(const std::string &s) {
  std::string o = "\"";
  char b[8];
  for (unsigned char c : s) {
    if (c == '"' || c == '\\') {
      o += '\\';
      o += (char)c;
    } else if (c == '\n')
      o += "\\n";
    else if (c < 0x20 || c >= 0x7f) {
      snprintf(b, sizeof b, "\\u%04x", c);
      o += b;
    } else
      o += (char)c;
  }
  return o + "\"";
}

struct Stats {
  uint64_t evaluations = 0, nontrivial = 0, known_excluded = 0, rejected = 0;
  std::unordered_set<uint64_t> distinct;
  std::map<std::string, uint64_t> labels;
  std::vector<std::string> first;                      // first 2 cases
  std::vector<std::pair<uint64_t, std::string>> keep;  // 3 smallest hashes
  bool failed = false;
  bool fail_sched = false;
  std::string fail_msg, fail_file;
  std::vector<std::string> starved;
  double wall = 0;
};

inline std::set<std::string> split_env(const char *name) {
  std::set<std::string> out;
  const char *e = getenv(name);
  if (!e)
    return out;
  std::string s(e), cur;
  for (char c : s) {
    if (c == ',') {
      if (!cur.empty())
        out.insert(cur);
      cur.clear();
    } else
      cur += c;
  }
  if (!cur.empty())
    out.insert(cur);
  return out;
}

inline int vmain(int argc, char **argv, const std::string &property_id,
                 std::vector<VProp> props) {
  // ------------------------------------------------------------ replay mode
  if (argc >= 3 && std::string(argv[1]) == "--replay") {
    int bad = 0;
    for (int a = 2; a < argc; ++a) {
      std::ifstream f(argv[a]);
      if (!f) {
        fprintf(stderr, "cannot open %s\n", argv[a]);
        return 2;
      }
      std::stringstream ss;
      ss << f.rdbuf();
      VCase c = VCase::from_text(ss.str());
      bool found = false;
      for (auto &p : props) {
        if (p.name != c.prop)
          continue;
        found = true;
        VResult r;
        try {
          r = p.oracle(c);
        } catch (const VerifAbort &e) {
          r.fail("unexpected abort: " + e.msg);
        }
        if (!r.ok) {
          const auto known = split_env("VERIF_KNOWN");
          if (!r.known.empty() && known.count(r.known)) {
            printf("REPLAY-KNOWN %s %s: %s\n", argv[a], r.known.c_str(),
                   r.msg.c_str());
          } else {
            printf("REPLAY-FAIL %s: %s\n", argv[a], r.msg.c_str());
            ++bad;
          }
        } else
          printf("REPLAY-OK %s\n", argv[a]);
      }
      if (!found) {
        fprintf(stderr, "no property named '%s' in this harness\n",
                c.prop.c_str());
        return 2;
      }
    }
    return bad ? 1 : 0;
  }
  if (argc >= 2 && std::string(argv[1]) == "--list") {
    for (auto &p : props)
      printf("%s %d\n", p.name.c_str(), p.quick_cases);
    return 0;
  }

  const auto only = split_env("VERIF_ONLY");
  const auto known = split_env("VERIF_KNOWN");
  const double scale = getenv("VERIF_SCALE") ? atof(getenv("VERIF_SCALE")) : 1.;
  const long seed = getenv("VERIF_SEED") ? atol(getenv("VERIF_SEED")) : 1;
  const std::string faildir =
      getenv("VERIF_FAILDIR") ? getenv("VERIF_FAILDIR") : ".";
  std::map<std::string, Stats> all;
  int nfail = 0, nstarved = 0;
  std::set<std::string> known_printed;

  for (auto &p : props) {
    if (!only.empty() && !only.count(p.name))
      continue;
    Stats &st = all[p.name];
    const long n = std::max(1l, (long)std::llround(p.quick_cases * scale));
    // each property gets its own derived seed so adding a property does not
    // shift the others
    uint64_t h = 1469598103934665603ull;
    for (unsigned char c : p.name) {
      h ^= c;
      h *= 1099511628211ull;
    }
    const uint64_t pseed = (uint64_t)seed * 1000003ull + (h % 1000003ull);
    // explicit parameters (rapidcheck caches RC_PARAMS after the first use,
    // so the environment cannot configure several properties in one process)
    rc::detail::TestParams params;
    params.seed = pseed;
    params.maxSuccess = (int)n;
    params.maxSize = p.max_size;
    params.maxDiscardRatio = 20;
    rc::detail::TestMetadata metadata;
    metadata.id = property_id + "/" + p.name;
    metadata.description = metadata.id;
    bool shrinking = false;
    VCase lastfail;
    std::string lastmsg;
    const auto t0 = std::chrono::steady_clock::now();
    std::chrono::steady_clock::time_point shrink_start;
    const double shrink_budget_s =
        getenv("VERIF_SHRINK_S") ? atof(getenv("VERIF_SHRINK_S")) : 120.;
    const auto result = rc::detail::checkTestable([&]() {
      if (shrinking &&
          std::chrono::duration<double>(std::chrono::steady_clock::now() -
                                        shrink_start)
                  .count() > shrink_budget_s) {
        // shrink budget exhausted: everything else "passes", so the library
        // settles on the smallest failing case found so far
        return;
      }
      VCase c = p.gen();
      c.prop = p.name;
      VResult r;
      try {
        r = p.oracle(c);
      } catch (const VerifAbort &e) {
        r.fail("unexpected abort at " + e.file + ":" + std::to_string(e.line) +
               ": " + e.msg);
      }
      if (!r.ok && !r.known.empty() && known.count(r.known)) {
        if (!shrinking) {
          ++st.known_excluded;
          if (!known_printed.count(r.known)) {
            known_printed.insert(r.known);
            printf("KNOWN-FINDING-HIT matcher=%s %s\n", r.known.c_str(),
                   r.msg.c_str());
          }
        }
        return; // excluded class: the search continues behind it
      }
      if (!shrinking) {
        ++st.evaluations;
        for (auto &l : r.labels)
          ++st.labels[l];
        if (r.nontrivial) {
          ++st.nontrivial;
          const uint64_t hh = c.hash();
          if (st.distinct.insert(hh).second) {
            if (st.first.size() < 2)
              st.first.push_back(c.to_text());
            else {
              st.keep.emplace_back(hh, c.to_text());
              std::sort(st.keep.begin(), st.keep.end());
              if (st.keep.size() > 3)
                st.keep.pop_back();
            }
          }
        }
      }
      if (!r.ok) {
        if (!shrinking)
          shrink_start = std::chrono::steady_clock::now();
        shrinking = true;
        lastfail = c;
        lastmsg = r.msg;
        st.fail_sched = r.schedule_dependent;
        RC_FAIL(r.msg);
      }
    }, metadata, params);
    const bool ok = result.template is<rc::detail::SuccessResult>();
    if (!ok) {
      std::cerr << "- " << metadata.id << std::endl;
      rc::detail::printResultMessage(result, std::cerr);
      std::cerr << std::endl;
    }
    st.wall = std::chrono::duration<double>(std::chrono::steady_clock::now() - t0)
                  .count();
    if (!ok) {
      if (!shrinking) {
        // the library gave up (e.g. too many discards) - generator problem
        fprintf(stderr, "INCONCLUSIVE %s/%s: rapidcheck gave up\n",
                property_id.c_str(), p.name.c_str());
        st.starved.push_back("gave-up");
        ++nstarved;
        continue;
      }
      st.failed = true;
      st.fail_msg = lastmsg;
      char fn[512];
      snprintf(fn, sizeof fn, "%s/%s-%s-%016" PRIx64 ".case", faildir.c_str(),
               property_id.c_str(), p.name.c_str(), lastfail.hash());
      std::ofstream f(fn);
      f << lastfail.to_text();
      f << "# " << lastmsg << "\n";
      st.fail_file = fn;
      printf("FAILCASE %s %s\n", p.name.c_str(), fn);
      ++nfail;
    } else {
      for (auto &fl : p.floors) {
        const double frac =
            st.evaluations ? (double)st.labels[fl.first] / st.evaluations : 0.;
        if (frac < fl.second) {
          fprintf(stderr,
                  "INCONCLUSIVE generator-starved %s/%s label=%s frac=%g "
                  "floor=%g\n",
                  property_id.c_str(), p.name.c_str(), fl.first.c_str(), frac,
                  fl.second);
          st.starved.push_back(fl.first);
          ++nstarved;
        }
      }
    }
  }

  // ------------------------------------------------------------ partial JSON
  if (const char *out = getenv("VERIF_OUT")) {
    std::ofstream o(out);
    o << "{\"property_id\":" << jstr(property_id) << ",\"props\":{";
    bool firstp = true;
    for (auto &p : props) {
      auto it = all.find(p.name);
      if (it == all.end())
        continue;
      Stats &st = it->second;
      if (!firstp)
        o << ",";
      firstp = false;
      o << jstr(p.name) << ":{\"evaluations\":" << st.evaluations
        << ",\"nontrivial\":" << st.nontrivial
        << ",\"distinct_nontrivial\":" << st.distinct.size()
        << ",\"known_excluded\":" << st.known_excluded
        << ",\"wall_s\":" << st.wall << ",\"failed\":"
        << (st.failed ? "true" : "false") << ",\"schedule_dependent\":"
        << (st.fail_sched ? "true" : "false") << ",\"fail_msg\":" << jstr(st.fail_msg)
        << ",\"fail_file\":" << jstr(st.fail_file) << ",\"rule\":" << jstr(p.rule)
        << ",\"labels\":{";
      bool fl = true;
      for (auto &l : st.labels) {
        if (!fl)
          o << ",";
        fl = false;
        o << jstr(l.first) << ":" << l.second;
      }
      o << "},\"starved\":[";
      fl = true;
      for (auto &s : st.starved) {
        if (!fl)
          o << ",";
        fl = false;
        o << jstr(s);
      }
      o << "],\"samples\":[";
      fl = true;
      for (auto &s : st.first) {
        if (!fl)
          o << ",";
        fl = false;
        o << jstr(s);
      }
      for (auto &s : st.keep) {
        if (!fl)
          o << ",";
        fl = false;
        o << jstr(s.second);
      }
      o << "],\"distinct_hashes\":[";
      // hashes let the driver count distinct cases across shards exactly
      fl = true;
      size_t cnt = 0;
      for (auto hsh : st.distinct) {
        if (cnt++ >= 200000)
          break;
        if (!fl)
          o << ",";
        fl = false;
        o << "\"" << std::hex << hsh << std::dec << "\"";
      }
      o << "]}";
    }
    o << "}}\n";
  }
  if (nfail)
    return 1;
  if (nstarved)
    return 2;
  return 0;
}

} // namespace vr

#endif // VERIF_RC_HPP
