// C20 (c) - snapshot write/read round trip and output-field bookkeeping.
#ifndef C20_SNAPSHOT_HPP
#define C20_SNAPSHOT_HPP

#include "BufferedCMacIonizeSnapshotDensityFunction.hpp"
#include "CMacIonizeSnapshotDensityFunction.hpp"
#include "DensityGridWriterFields.hpp"
#include "DensitySubGrid.hpp"
#include "DensitySubGridCreator.hpp"
#include "GadgetDensityGridWriter.hpp"
#include "ParameterFile.hpp"
#include "SimulationBox.hpp"
#include "c20_used_values.hpp"
#include "verif_rc.hpp"

#include <cerrno>
#include <omp.h>
#include <csignal>
#include <sys/resource.h>
#include <sys/wait.h>

namespace c20h {

inline uint64_t mix64(uint64_t x) {
  x += 0x9e3779b97f4a7c15ull;
  x = (x ^ (x >> 30)) * 0xbf58476d1ce4e5b9ull;
  x = (x ^ (x >> 27)) * 0x94d049bb133111ebull;
  return x ^ (x >> 31);
}

// the generated field: a pure function of the case and the global cell index
struct Field {
  int n[3];
  double anchor[3], sides[3];
  std::vector<double> pal_n, pal_T;
  uint64_t salt;

  void index_of(const CoordinateVector<> &p, int g[3]) const {
    for (int a = 0; a < 3; ++a) {
      int i = (int)std::floor((p[a] - anchor[a]) / sides[a] * n[a]);
      g[a] = std::min(std::max(i, 0), n[a] - 1);
    }
  }
  uint64_t lin(const int g[3]) const {
    return ((uint64_t)g[0] * n[1] + g[1]) * n[2] + g[2];
  }
  double number_density(const int g[3]) const {
    const uint64_t l = lin(g), h = mix64(salt ^ (l * 3 + 1));
    const double base = pal_n[h % pal_n.size()];
    const double v = base * (1. + (double)(l % 4096) * 0x1p-20);
    return std::isfinite(v) ? v : base;
  }
  double temperature(const int g[3]) const {
    const uint64_t l = lin(g), h = mix64(salt ^ (l * 3 + 2));
    const double base = pal_T[h % pal_T.size()];
    const double v = base * (1. + (double)(l % 4096) * 0x1p-20);
    return std::isfinite(v) ? v : base;
  }
  double neutral_fraction(const int g[3], int ion) const {
    const uint64_t l = lin(g);
    const uint64_t h = mix64(salt ^ (l * 64 + 7 + (uint64_t)ion) * 0x2545f4914f6cdd1dull);
    switch (h % 16) {
    case 0:
      return 0.;
    case 1:
      return 1.;
    case 2:
      return 1e-300;
    case 3:
      return 1e-6; // the readers' filler value
    default:
      return (double)(h >> 11) * 0x1p-53;
    }
  }
};

class FieldFunction : public DensityFunction {
  const Field &_f;

public:
  FieldFunction(const Field &f) : _f(f) {}
  virtual DensityValues operator()(const Cell &cell) {
    int g[3];
    _f.index_of(cell.get_cell_midpoint(), g);
    DensityValues v;
    v.set_number_density(_f.number_density(g));
    v.set_temperature(_f.temperature(g));
    for (int ion = 0; ion < NUMBER_OF_IONNAMES; ++ion)
      v.set_ionic_fraction(ion, _f.neutral_fraction(g, ion));
    return v;
  }
};

inline bool same_bits(double a, double b) { return memcmp(&a, &b, 8) == 0; }

// ----------------------------------------------------------- writer_fields
inline int64_t gen_ionmask() {
  const int64_t all = (1ll << NUMBER_OF_IONNAMES) - 1;
  switch (vr::weighted({3, 2, 2, 1, 2, 2})) {
  case 0:
    return 1; // hydrogen only (the default)
  case 1:
    return 3; // H and He
  case 2:
    return (1ll << vr::irange(1, NUMBER_OF_IONNAMES)) - 1; // a prefix
  case 3:
    return 0;
  case 4:
    return all;
  default:
    return vr::irange(0, all); // any selection
  }
}
inline bool is_prefix_mask(int64_t m) { return (m & (m + 1)) == 0; }

inline std::string fields_block(int64_t ionmask, bool temperature,
                                bool number_density, bool coordinates) {
  std::string s = "DensityGridWriterFields:\n";
  s += vr::fmt("  Coordinates: %d\n", (int)coordinates);
  s += vr::fmt("  NumberDensity: %d\n", (int)number_density);
  s += vr::fmt("  Temperature: %d\n", (int)temperature);
  for (int ion = 0; ion < NUMBER_OF_IONNAMES; ++ion)
    s += "  NeutralFraction" + get_ion_name(ion) +
         vr::fmt(": %d\n", (int)((ionmask >> ion) & 1));
  return s;
}

// "" if the bookkeeping of the output fields is consistent
inline std::string fields_consistency(const DensityGridWriterFields &f,
                                      int64_t ionmask, bool temperature,
                                      bool number_density, bool coordinates) {
  int scalars = 0, vectors = 0;
  for (int prop = 0; prop < DENSITYGRIDFIELD_NUMBER; ++prop) {
    if (!f.field_present(prop))
      continue;
    if (DensityGridWriterFields::get_type(prop) ==
        DENSITYGRIDFIELDTYPE_VECTOR_DOUBLE)
      ++vectors;
    else if (DensityGridWriterFields::is_ion_property(prop)) {
      for (int ion = 0; ion < NUMBER_OF_IONNAMES; ++ion)
        if (f.ion_present(prop, ion)) {
          ++scalars;
          if (prop == DENSITYGRIDFIELD_NEUTRAL_FRACTION &&
              !((ionmask >> ion) & 1))
            return "neutral fraction of " + get_ion_name(ion) +
                   " is reported present although its flag is 0";
        }
    } else if (DensityGridWriterFields::is_heating_property(prop)) {
      for (int h = 0; h < NUMBER_OF_HEATINGTERMS; ++h)
        if (f.heatingterm_present(prop, h))
          ++scalars;
    } else
      ++scalars;
  }
  for (int ion = 0; ion < NUMBER_OF_IONNAMES; ++ion)
    if (((ionmask >> ion) & 1) &&
        !(f.field_present(DENSITYGRIDFIELD_NEUTRAL_FRACTION) &&
          f.ion_present(DENSITYGRIDFIELD_NEUTRAL_FRACTION, ion)))
      return "neutral fraction of " + get_ion_name(ion) +
             " was requested but is not reported present";
  if (f.field_present(DENSITYGRIDFIELD_TEMPERATURE) != temperature ||
      f.field_present(DENSITYGRIDFIELD_NUMBER_DENSITY) != number_density ||
      f.field_present(DENSITYGRIDFIELD_COORDINATES) != coordinates)
    return "a plain field flag is not what the parameter file says";
  if (scalars != (int)f.get_field_count(DENSITYGRIDFIELDTYPE_SCALAR_DOUBLE))
    return vr::fmt("%d scalar datasets are reported present but "
                   "get_field_count (the number of buffers the writer "
                   "allocates) is %d",
                   scalars,
                   (int)f.get_field_count(DENSITYGRIDFIELDTYPE_SCALAR_DOUBLE));
  if (vectors != (int)f.get_field_count(DENSITYGRIDFIELDTYPE_VECTOR_DOUBLE))
    return vr::fmt("%d vector datasets present, field count %d", vectors,
                   (int)f.get_field_count(DENSITYGRIDFIELDTYPE_VECTOR_DOUBLE));
  return "";
}

inline VCase gen_fields() {
  VCase c;
  c.I("ionmask", gen_ionmask());
  c.I("temperature", vr::coin(0.7));
  c.I("number_density", vr::coin(0.8));
  c.I("coordinates", vr::coin(0.6));
  return c;
}
inline VResult o_fields(const VCase &c) {
  VResult r;
  const int64_t mask = c.i("ionmask");
  const std::string file = tmp_name("fields.param");
  {
    std::ofstream f(file);
    f << fields_block(mask, c.i("temperature"), c.i("number_density"),
                      c.i("coordinates"));
  }
  ParameterFile params(file);
  unlink(file.c_str());
  const DensityGridWriterFields fields(params, false);
  r.label(is_prefix_mask(mask) ? "ion-selection-prefix"
                               : "ion-selection-with-gap");
  r.nontrivial = __builtin_popcountll(mask) >= 2;
  const std::string msg = fields_consistency(
      fields, mask, c.i("temperature"), c.i("number_density"),
      c.i("coordinates"));
  if (!msg.empty()) {
    r.fail(vr::fmt("ion flags 0x%llx: ", (long long)mask) + msg);
  }
  return r;
}

// ------------------------------------------------------- snapshot_roundtrip
inline double gen_six_digit(double lo, double hi) {
  // a value that the 6-digit used-values dump reproduces exactly
  const double v = vr::logu(lo, hi);
  return strtod(vr::fmt("%.4g", v).c_str(), nullptr);
}

inline VCase gen_snapshot() {
  VCase c;
  // cells per subgrid and subgrids per axis
  int nsub[3], cps[3];
  const int shape = vr::weighted({5, 4, 1, 1});
  for (int a = 0; a < 3; ++a) {
    nsub[a] = (int)vr::irange(1, 3);
    cps[a] = (int)vr::irange(1, 5);
  }
  bool cubic = false;
  if (shape == 1) { // cubic cells in a cubic box (the buffered reader's domain)
    cubic = true;
    const int n = (int)vr::pick(std::vector<int>{2, 4, 6, 8, 12});
    for (int a = 0; a < 3; ++a) {
      std::vector<int> div;
      for (int d = 1; d <= n; ++d)
        if (n % d == 0 && d <= 4)
          div.push_back(d);
      nsub[a] = vr::pick(div);
      cps[a] = n / nsub[a];
    }
  } else if (shape == 2) { // one big subgrid: blocked write path (> 10000)
    cubic = vr::coin(0.5);
    if (cubic) {
      cps[0] = cps[1] = cps[2] = 22;
      nsub[0] = nsub[1] = nsub[2] = 1;
    } else {
      cps[0] = 30;
      cps[1] = 20;
      cps[2] = 17;
      nsub[0] = (int)vr::irange(1, 2);
      nsub[1] = 1;
      nsub[2] = 1;
    }
  } else if (shape == 3) { // exactly 10000 and 10001.. cells per subgrid
    cps[0] = 25;
    cps[1] = 20;
    cps[2] = vr::coin(0.5) ? 20 : 21;
    nsub[0] = 1;
    nsub[1] = (int)vr::irange(1, 2);
    nsub[2] = 1;
  }
  std::vector<int64_t> ncell(3), ns(3), ns2(3);
  for (int a = 0; a < 3; ++a) {
    ncell[a] = nsub[a] * cps[a];
    ns[a] = nsub[a];
  }
  // the grid that reads the snapshot has the same cells, possibly cut into
  // different subgrids
  for (int a = 0; a < 3; ++a) {
    ns2[a] = ns[a];
    if (vr::coin(0.25)) {
      std::vector<int64_t> div;
      for (int64_t d = 1; d <= ncell[a] && d <= 6; ++d)
        if (ncell[a] % d == 0)
          div.push_back(d);
      ns2[a] = vr::pick(div);
    }
  }
  c.I("ncell", ncell);
  c.I("nsub", ns);
  c.I("nsub_read", ns2);
  // box
  const int boxclass = vr::weighted({6, 3});
  std::vector<double> anchor(3), sides(3);
  const double L = gen_six_digit(1e-3, 1e20);
  for (int a = 0; a < 3; ++a) {
    if (boxclass == 0) {
      sides[a] = cubic ? L : gen_six_digit(0.2 * L, 5. * L);
      switch (vr::weighted({2, 2, 2})) {
      case 0:
        anchor[a] = 0.;
        break;
      case 1:
        anchor[a] = -0.5 * sides[a];
        break;
      default:
        anchor[a] = strtod(vr::fmt("%.3g", vr::uni(-3., 3.) * L).c_str(), nullptr);
      }
    } else {
      sides[a] = cubic ? L * 1.0000123456789 : vr::uni(0.2, 5.) * L;
      anchor[a] = vr::uni(-3., 3.) * L;
    }
  }
  if (cubic)
    for (int a = 1; a < 3; ++a) {
      sides[a] = sides[0];
      // the cell size must be the same on all axes: ncell equal in this class
    }
  c.I("boxclass", boxclass);
  c.D("anchor", anchor);
  c.D("sides", sides);
  c.I("length_unit", vr::weighted({5, 1, 1})); // m, cm, pc
  // fields
  c.I("ionmask", gen_ionmask());
  c.I("coordinates", vr::coin(0.5));
  c.I("compression", vr::coin(0.15));
  std::vector<double> pn, pT;
  const int P = (int)vr::irange(2, 6);
  for (int i = 0; i < P; ++i) {
    switch (vr::weighted({6, 1, 1, 1})) {
    case 0:
      pn.push_back(vr::logu(1e-15, 1e15));
      break;
    case 1:
      pn.push_back(0.);
      break;
    case 2:
      pn.push_back(vr::coin(0.5) ? 5e-324 : DBL_MAX);
      break;
    default:
      pn.push_back(vr::dyadic(1., 1024., 10));
    }
    pT.push_back(vr::coin(0.1) ? 0. : vr::logu(1e-2, 1e9));
  }
  c.D("pal_n", pn);
  c.D("pal_T", pT);
  c.I("salt", vr::irange(0, (1ll << 40)));
  c.D("init_nf", vr::coin(0.5) ? 1e-6 : vr::uni());
  c.I("copies", vr::weighted({5, 3, 2})); // none, some level 1, mixed levels
  c.I("buffer", vr::irange(1, 8));
  return c;
}

struct Geometry {
  CoordinateVector<int_fast32_t> ncell, nsub;
};

inline std::string compare_grid(DensitySubGridCreator<DensitySubGrid> &grid,
                                const Field &f, int64_t ionmask, double filler,
                                const char *what, size_t &ncompared) {
  for (auto git = grid.begin(); git != grid.original_end(); ++git) {
    for (auto cit = (*git).begin(); cit != (*git).end(); ++cit) {
      int g[3];
      f.index_of(cit.get_cell_midpoint(), g);
      const IonizationVariables &iv = cit.get_ionization_variables();
      ++ncompared;
      const double n0 = f.number_density(g), T0 = f.temperature(g);
      if (!same_bits(iv.get_number_density(), n0))
        return vr::fmt("%s: cell (%d,%d,%d) number density written %.17g, "
                       "read back %.17g",
                       what, g[0], g[1], g[2], n0, iv.get_number_density());
      if (!same_bits(iv.get_temperature(), T0))
        return vr::fmt("%s: cell (%d,%d,%d) temperature written %.17g, read "
                       "back %.17g",
                       what, g[0], g[1], g[2], T0, iv.get_temperature());
      for (int ion = 0; ion < NUMBER_OF_IONNAMES; ++ion) {
        const double x0 =
            ((ionmask >> ion) & 1) ? f.neutral_fraction(g, ion) : filler;
        if (!same_bits(iv.get_ionic_fraction(ion), x0))
          return vr::fmt("%s: cell (%d,%d,%d) neutral fraction of %s written "
                         "%.17g%s, read back %.17g",
                         what, g[0], g[1], g[2], get_ion_name(ion).c_str(), x0,
                         ((ionmask >> ion) & 1) ? "" : " (not stored: filler)",
                         iv.get_ionic_fraction(ion));
      }
    }
  }
  return "";
}

inline VResult o_snapshot(const VCase &c) {
  VResult r;
  // the read phase is forked: no OpenMP worker threads may exist in this
  // process (grid initialisation has a parallel region)
  omp_set_num_threads(1);
  Field f;
  for (int a = 0; a < 3; ++a) {
    f.n[a] = (int)c.i("ncell", a);
    f.anchor[a] = c.d("anchor", a);
    f.sides[a] = c.d("sides", a);
  }
  f.pal_n = c.dv("pal_n");
  f.pal_T = c.dv("pal_T");
  f.salt = (uint64_t)c.i("salt");
  const int64_t mask = c.i("ionmask");
  const int64_t cells_per_subgrid = (c.i("ncell", 0) / c.i("nsub", 0)) *
                                    (c.i("ncell", 1) / c.i("nsub", 1)) *
                                    (c.i("ncell", 2) / c.i("nsub", 2));
  const bool cubic = f.n[0] == f.n[1] && f.n[0] == f.n[2] &&
                     f.sides[0] == f.sides[1] && f.sides[0] == f.sides[2];
  const bool multi = c.i("nsub", 0) >= 2 && c.i("nsub", 1) >= 2 &&
                     c.i("nsub", 2) >= 2;
  r.label(cubic ? "cubic" : "non-cubic");
  if (cells_per_subgrid > 10000)
    r.label("blocked-write-path");
  if (cells_per_subgrid == 10000)
    r.label("exactly-one-block");
  if (multi)
    r.label("2+subgrids-per-axis");
  r.label(is_prefix_mask(mask) ? "ion-selection-prefix"
                               : "ion-selection-with-gap");
  if (c.i("copies"))
    r.label("subgrid-copies");
  if (c.iv("nsub") != c.iv("nsub_read"))
    r.label("read-with-other-subgrid-layout");
  r.nontrivial = multi && !cubic;

  // ---- the parameter file of the run that writes the snapshot
  static const char *lu[] = {"m", "cm", "pc"};
  const char *unit = lu[c.i("length_unit")];
  const double ufac = c20::unit_value(UnitConverter::get_single_unit(unit));
  // a fresh file name for every evaluation: an abort inside the writer or a
  // reader leaves the HDF5 file open in this process
  static unsigned long sequence = 0;
  const std::string prefix = "c20_" + std::to_string((long)getpid()) + "_" +
                             std::to_string(++sequence) + "_snap";
  const char *tmpd = getenv("VERIF_TMP");
  const std::string folder = tmpd ? tmpd : ".";
  std::string text = "SimulationBox:\n";
  auto vec = [&](const double *v) {
    // written in the chosen unit; the SI value is what the file yields
    return vr::fmt("[%.17g %s, %.17g %s, %.17g %s]", v[0] / ufac, unit,
                   v[1] / ufac, unit, v[2] / ufac, unit);
  };
  text += "  anchor: " + vec(f.anchor) + "\n";
  text += "  sides: " + vec(f.sides) + "\n";
  text += vr::fmt("DensityGrid:\n  number of cells: [%d, %d, %d]\n", f.n[0],
                  f.n[1], f.n[2]);
  text += vr::fmt("DensitySubGridCreator:\n  number of subgrids: [%d, %d, %d]\n",
                  (int)c.i("nsub", 0), (int)c.i("nsub", 1), (int)c.i("nsub", 2));
  text += "DensityGridWriter:\n  prefix: " + prefix + "\n";
  text += vr::fmt("  compression: %s\n", c.i("compression") ? "true" : "false");
  text += fields_block(mask, true, true, c.i("coordinates"));
  const std::string pfile = tmp_name("snap.param");
  {
    std::ofstream o(pfile);
    o << text;
  }
  ParameterFile params(pfile);
  unlink(pfile.c_str());
  SimulationBox sbox(params);
  const Box<> box = sbox.get_box();
  // the geometry the run really uses (the unit conversion may round)
  for (int a = 0; a < 3; ++a) {
    f.anchor[a] = box.get_anchor()[a];
    f.sides[a] = box.get_sides()[a];
  }
  bool exact6 = true;
  for (int a = 0; a < 3; ++a) {
    if (strtod(vr::fmt("%.6g", f.anchor[a]).c_str(), nullptr) != f.anchor[a] ||
        strtod(vr::fmt("%.6g", f.sides[a]).c_str(), nullptr) != f.sides[a])
      exact6 = false;
  }
  r.label(exact6 ? "box-survives-6-digit-dump" : "box-rounded-by-6-digit-dump");
  {
    // do not start the writer on inconsistent bookkeeping: it would index
    // beyond the buffers it allocated (see writer_fields)
    const std::string pf2 = tmp_name("snapf.param");
    {
      std::ofstream o(pf2);
      o << fields_block(mask, true, true, c.i("coordinates"));
    }
    ParameterFile p2(pf2);
    unlink(pf2.c_str());
    const DensityGridWriterFields fields(p2, false);
    const std::string msg =
        fields_consistency(fields, mask, true, true, c.i("coordinates"));
    if (!msg.empty()) {
      r.fail(vr::fmt("ion flags 0x%llx: ", (long long)mask) + msg);
      return r;
    }
  }
  DensitySubGridCreator<DensitySubGrid> grid(box, params);
  GadgetDensityGridWriter writer(folder, params, false, nullptr);
  FieldFunction ff(f);
  grid.initialize(ff);
  if (c.i("copies")) {
    std::vector<uint_fast8_t> levels(grid.number_of_original_subgrids(), 0);
    for (size_t i = 0; i < levels.size(); ++i) {
      const uint64_t h = mix64(f.salt ^ (0xabcdull + i));
      levels[i] = c.i("copies") == 1 ? (h % 3 == 0) : (h % 3);
    }
    levels[0] = 1; // at least one copy
    grid.create_copies(levels);
  }
  const uint_fast32_t counter = (uint_fast32_t)(f.salt % 1000);
  const std::string snap =
      Utilities::compose_filename(folder, prefix, "hdf5", counter, 3);
  try {
    writer.write(grid, counter, params);
  } catch (const VerifAbort &e) {
    H5close(); // closes the half-written file; the library re-opens on demand
    unlink(snap.c_str());
    r.fail("writing the snapshot aborts: " + e.msg);
    return r;
  }

  // ---- the geometry block of the snapshot (what the readers rely on)
  try {
    HDF5Tools::HDF5File hf =
        HDF5Tools::open_file(snap, HDF5Tools::HDF5FILEMODE_READ);
    HDF5Tools::HDF5Group pg = HDF5Tools::open_group(hf, "/Parameters");
    const std::string sa =
        HDF5Tools::read_attribute<std::string>(pg, "SimulationBox:anchor");
    const std::string ss =
        HDF5Tools::read_attribute<std::string>(pg, "SimulationBox:sides");
    const std::string sn =
        HDF5Tools::read_attribute<std::string>(pg, "DensityGrid:number of cells");
    const std::string sg = HDF5Tools::read_attribute<std::string>(
        pg, "DensitySubGridCreator:number of subgrids");
    HDF5Tools::close_group(pg);
    HDF5Tools::close_file(hf);
    double a[3], sd[3];
    long nn[3], ng[3];
    if (sscanf(sa.c_str(), "[%lf m, %lf m, %lf m]", a, a + 1, a + 2) != 3 ||
        sscanf(ss.c_str(), "[%lf m, %lf m, %lf m]", sd, sd + 1, sd + 2) != 3 ||
        sscanf(sn.c_str(), "[%ld, %ld, %ld]", nn, nn + 1, nn + 2) != 3 ||
        sscanf(sg.c_str(), "[%ld, %ld, %ld]", ng, ng + 1, ng + 2) != 3)
      r.fail("geometry attributes of the snapshot are not readable: " + sa +
             " | " + ss + " | " + sn + " | " + sg);
    else
      for (int k = 0; k < 3; ++k)
        if (!printed_close(a[k], f.anchor[k]) ||
            !printed_close(sd[k], f.sides[k]) || nn[k] != f.n[k] ||
            ng[k] != c.i("nsub", k))
          r.fail("snapshot stores the geometry " + sa + " " + ss + " " + sn +
                 " " + sg +
                 vr::fmt(", the grid has anchor [%g, %g, %g] sides [%g, %g, "
                         "%g]",
                         f.anchor[0], f.anchor[1], f.anchor[2], f.sides[0],
                         f.sides[1], f.sides[2]));
  } catch (const VerifAbort &e) {
    H5close();
    r.fail("geometry attributes of the snapshot cannot be read: " + e.msg);
  }
  if (!r.ok) {
    unlink(snap.c_str());
    return r;
  }

  size_t ncmp = 0;
  const CoordinateVector<int_fast32_t> ncell(f.n[0], f.n[1], f.n[2]);
  const CoordinateVector<int_fast32_t> nsub_read(
      c.i("nsub_read", 0), c.i("nsub_read", 1), c.i("nsub_read", 2));
  // The read phase runs in a forked child with a CPU-time limit: a reader
  // that indexes outside its tables (wrong box, wrong subgrid index) crashes
  // or spins on a garbage lock instead of returning wrong values, and that
  // has to become a reproducible failure, not a dead harness.
  const bool run_buffered = cubic && exact6;
  if (cubic && !exact6)
    r.label("buffered-reader-box-not-representable-skipped");
  if (run_buffered)
    r.label("buffered-reader-run");
  auto read_phase = [&]() -> std::string {
    std::string m;
    try {
      {
        CMacIonizeSnapshotDensityFunction rd(snap, false, false,
                                             c.d("init_nf"), nullptr);
        rd.initialize();
        DensitySubGridCreator<DensitySubGrid> grid2(
            box, ncell, nsub_read, CoordinateVector<bool>(false));
        grid2.initialize(rd);
        rd.free();
        m = compare_grid(grid2, f, mask, c.d("init_nf"), "snapshot reader",
                         ncmp);
      }
      // the snapshot stores the box only with the 6 significant digits of the
      // used-values dump, and the buffered reader (made for cutting a sub-box
      // out of an old snapshot) compares boxes with an absolute 1e-10
      // tolerance: it is only asked to read boxes that survive the dump
      if (m.empty() && run_buffered) {
        const uint_fast32_t nb = (uint_fast32_t)c.i("buffer");
        BufferedCMacIonizeSnapshotDensityFunction brd(
            snap, nb, box,
            CoordinateVector<uint_fast32_t>(f.n[0], f.n[1], f.n[2]), nullptr);
        brd.initialize();
        DensitySubGridCreator<DensitySubGrid> grid3(
            box, ncell, nsub_read, CoordinateVector<bool>(false));
        grid3.initialize(brd);
        brd.free();
        m = compare_grid(grid3, f, mask, 1.e-6, "buffered snapshot reader",
                         ncmp);
      }
    } catch (const VerifAbort &e) {
      m = "reading the snapshot back aborts: " + e.msg;
    }
    return m;
  };
  std::string msg;
  int pfd[2];
  if (pipe(pfd) != 0) {
    r.fail("harness: pipe() failed");
    unlink(snap.c_str());
    return r;
  }
  fflush(stdout);
  fflush(stderr);
  const pid_t child = fork();
  if (child == 0) {
    close(pfd[0]);
    struct rlimit lim;
    lim.rlim_cur = 20; // seconds of CPU; a normal read takes a few ms
    lim.rlim_max = 25;
    setrlimit(RLIMIT_CPU, &lim);
    signal(SIGSEGV, SIG_DFL);
    signal(SIGBUS, SIG_DFL);
    signal(SIGABRT, SIG_DFL);
    const std::string m = read_phase();
    size_t off = 0;
    while (off < m.size()) {
      const ssize_t w = write(pfd[1], m.data() + off, m.size() - off);
      if (w <= 0)
        break;
      off += (size_t)w;
    }
    close(pfd[1]);
    _exit(0);
  }
  close(pfd[1]);
  if (child < 0) {
    close(pfd[0]);
    r.fail("harness: fork() failed");
    unlink(snap.c_str());
    return r;
  }
  {
    char buf[4096];
    ssize_t n;
    while ((n = read(pfd[0], buf, sizeof buf)) > 0)
      msg.append(buf, (size_t)n);
    close(pfd[0]);
    int status = 0;
    while (waitpid(child, &status, 0) < 0 && errno == EINTR) {
    }
    if (WIFSIGNALED(status)) {
      const int sig = WTERMSIG(status);
      msg = vr::fmt("reading the snapshot back %s (signal %d%s)",
                    (sig == SIGXCPU || sig == SIGKILL) ? "does not terminate"
                                                       : "crashes",
                    sig,
                    sig == SIGSEGV   ? ", segmentation fault"
                    : sig == SIGXCPU ? ", 20 s CPU limit"
                                     : "");
    } else if (WEXITSTATUS(status) != 0)
      msg = vr::fmt("reading the snapshot back exits with status %d",
                    WEXITSTATUS(status));
  }
  unlink(snap.c_str());
  if (!msg.empty())
    r.fail(msg);
  return r;
}

inline void add_snapshot_props(std::vector<VProp> &props) {
  props.push_back(
      {"writer_fields", 3000, gen_fields, o_fields,
       "output-field selections as a run's parameter file gives them "
       "(Coordinates/NumberDensity/Temperature on or off, neutral fractions "
       "of any subset of the 14 ions: H only, H+He, prefixes, all, arbitrary "
       "subsets); the ions reported present must be exactly the selected ones "
       "and their number must equal the buffer count the writer allocates; "
       "non-trivial = at least two ions selected",
       {{"ion-selection-prefix", 0.3}}});
  props.push_back(
      {"snapshot_roundtrip", 300, gen_snapshot, o_snapshot,
       "task-based grids (1..3 subgrids per axis, 1..5 cells per subgrid and "
       "axis; cubic 2..12 cells; single subgrids of 10000, 10200, 10500 and "
       "10648 cells for the blocked write path), boxes with 4-digit or "
       "full-precision numbers in m/cm/pc, number density palette over 30 "
       "decades incl. 0, 5e-324 and DBL_MAX, every cell distinct, neutral "
       "fractions incl. exact 0/1/1e-300, optional subgrid copies, "
       "compression, any ion selection; read back with "
       "CMacIonizeSnapshotDensityFunction (and the buffered variant on cubic "
       "grids) into a grid with the same cells; bit-for-bit comparison; "
       "non-trivial = >= 2 subgrids on every axis of a non-cubic grid",
       {{"2+subgrids-per-axis", 0.05}, {"blocked-write-path", 0.03}}});
}

} // namespace c20h

#endif
