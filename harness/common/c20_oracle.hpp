// C20 - oracles shared by the rapidcheck harness (harness/c20_roundtrip.cpp)
// and the two libFuzzer targets (harness/fuzz/c20_yaml.cpp, c20_units.cpp).
//
//  * c20::refparse()        strict, independent reader of the text format that
//                           YAMLDictionary::print_contents emits (two spaces
//                           per level, "name:" headers, "name: value" leaves)
//  * c20::yaml_roundtrip()  file text -> YAMLDictionary -> print -> parse ->
//                           print, compared with an expected flat map (if the
//                           caller has one) and with each other
//  * c20::predicts_parser_ub()  recognises the one malformed-indentation shape
//                           on which the parser has undefined behaviour (see
//                           the note there) so the byte fuzzer can skip it
//  * c20::unit table        the *dimensions* of every table unit (a definition,
//                           not a value) and helpers to evaluate "product of
//                           parts" from the code's own single-unit values
#ifndef C20_ORACLE_HPP
#define C20_ORACLE_HPP

#include "UnitConverter.hpp"
#include "YAMLDictionary.hpp"

#include <cfloat>
#include <cmath>
#include <cstdarg>
#include <cstdio>
#include <map>
#include <sstream>
#include <string>
#include <vector>

namespace c20 {

inline std::string sfmt(const char *f, ...) {
  char b[2048];
  va_list ap;
  va_start(ap, f);
  vsnprintf(b, sizeof b, f, ap);
  va_end(ap);
  return b;
}

inline std::string show(const std::string &s) { // printable rendering
  std::string o;
  char b[8];
  for (unsigned char c : s) {
    if (c < 0x20 || c >= 0x7f) {
      snprintf(b, sizeof b, "\\x%02x", c);
      o += b;
    } else
      o += (char)c;
  }
  return o;
}

typedef std::map<std::string, std::string> Flat;

inline std::string trim(const std::string &s) {
  size_t a = 0, b = s.size();
  while (a < b && (s[a] == ' ' || s[a] == '\t'))
    ++a;
  while (b > a && (s[b - 1] == ' ' || s[b - 1] == '\t'))
    --b;
  return s.substr(a, b - a);
}

// ---------------------------------------------------------------------------
// Strict reader of the printer's own format.  Independent of the parser under
// test: no level stack of indentation widths, the depth of a line is simply
// (leading spaces)/2 and must not exceed the number of open groups.
// `headers` counts the group-header lines (to detect redundant ones).
// If `strip_comment` is set, " # (...)" tails (used-values dump) are removed
// and returned in `comments`.
inline bool refparse(const std::string &text, Flat &out, std::string &err,
                     size_t *headers = nullptr, bool strip_comment = false,
                     Flat *comments = nullptr) {
  out.clear();
  std::vector<std::string> stack;
  size_t nhead = 0;
  size_t pos = 0;
  bool pending_header = false; // a header must be followed by a deeper line
  size_t pending_depth = 0;
  int lineno = 0;
  while (pos < text.size()) {
    size_t e = text.find('\n', pos);
    if (e == std::string::npos) {
      err = "printed text does not end with a newline";
      return false;
    }
    std::string line = text.substr(pos, e - pos);
    pos = e + 1;
    ++lineno;
    std::string comment;
    if (strip_comment) {
      if (!line.empty() && line[0] == '#')
        continue; // time stamp line of ParameterFile::print_contents
      const size_t h = line.find(" # (");
      if (h != std::string::npos) {
        comment = line.substr(h + 4);
        if (!comment.empty() && comment.back() == ')')
          comment.pop_back();
        line = line.substr(0, h);
      }
    }
    size_t ns = 0;
    while (ns < line.size() && line[ns] == ' ')
      ++ns;
    if (ns % 2) {
      err = sfmt("line %d: odd indentation (%zu): \"%s\"", lineno, ns,
                 show(line).c_str());
      return false;
    }
    const size_t depth = ns / 2;
    if (depth > stack.size()) {
      err = sfmt("line %d: indented %zu levels but only %zu groups are open: "
                 "\"%s\"",
                 lineno, depth, stack.size(), show(line).c_str());
      return false;
    }
    if (pending_header && depth != pending_depth + 1) {
      err = sfmt("line %d: group header not followed by a member: \"%s\"",
                 lineno, show(line).c_str());
      return false;
    }
    pending_header = false;
    const size_t colon = line.find(':', ns);
    if (colon == std::string::npos) {
      err = sfmt("line %d: no ':' in \"%s\"", lineno, show(line).c_str());
      return false;
    }
    const std::string name = line.substr(ns, colon - ns);
    std::string rest = line.substr(colon + 1);
    stack.resize(depth);
    if (rest.empty()) {
      stack.push_back(name);
      ++nhead;
      pending_header = true;
      pending_depth = depth;
    } else {
      if (rest[0] != ' ') {
        err = sfmt("line %d: no blank after ':' in \"%s\"", lineno,
                   show(line).c_str());
        return false;
      }
      rest = rest.substr(1);
      std::string key;
      for (auto &g : stack)
        key += g + ":";
      key += name;
      if (out.count(key)) {
        err = sfmt("line %d: key \"%s\" printed twice", lineno,
                   show(key).c_str());
        return false;
      }
      out[key] = rest;
      if (comments)
        (*comments)[key] = comment;
    }
  }
  if (pending_header) {
    err = "text ends with a group header";
    return false;
  }
  if (headers)
    *headers = nhead;
  return true;
}

// minimal number of header lines needed to print the given sorted keys
inline size_t minimal_headers(const Flat &m) {
  std::vector<std::string> prev;
  size_t n = 0;
  for (auto &kv : m) {
    std::vector<std::string> g;
    size_t s = 0, p;
    while ((p = kv.first.find(':', s)) != std::string::npos) {
      g.push_back(kv.first.substr(s, p - s));
      s = p + 1;
    }
    size_t i = 0;
    while (i < g.size() && i < prev.size() && g[i] == prev[i])
      ++i;
    n += g.size() - i;
    prev = g;
  }
  return n;
}

struct KeyShape {
  int maxdepth = 0;      // deepest nesting (number of groups above a leaf)
  int maxjump = 0;       // largest |change of nesting| between sorted neighbours
  bool stale_pop = false; // the shape on which the printer's pop loop
                          // (YAMLDictionary.hpp:303-305) removes too few names
};
inline std::vector<std::string> groups_of(const std::string &key) {
  std::vector<std::string> g;
  size_t s = 0, p;
  while ((p = key.find(':', s)) != std::string::npos) {
    g.push_back(key.substr(s, p - s));
    s = p + 1;
  }
  return g;
}
inline KeyShape shape_of(const Flat &m) {
  KeyShape k;
  std::vector<std::string> prev;
  bool first = true;
  for (auto &kv : m) {
    const std::vector<std::string> g = groups_of(kv.first);
    k.maxdepth = std::max(k.maxdepth, (int)g.size());
    if (!first) {
      const int j = std::abs((int)g.size() - (int)prev.size());
      k.maxjump = std::max(k.maxjump, j);
      size_t i = 0;
      while (i < g.size() && i < prev.size() && g[i] == prev[i])
        ++i;
      // deeper key, and at least two names of the previous path must go
      if (g.size() > prev.size() && prev.size() - i >= 2)
        k.stale_pop = true;
    }
    first = false;
    prev = g;
  }
  return k;
}

// The parser pops its level stack with `while (indentation < levels.back())`
// (YAMLDictionary.hpp:200) without checking for an empty stack.  An indented
// line that is *less* indented than the first open level (malformed input such
// as "a:\n    k: 1\n  j: 2") therefore calls back()/erase() on an empty vector:
// undefined behaviour instead of a clean cmac_error.  The property only
// quantifies over well-formed parameter trees, so the byte-level fuzzer skips
// that shape; this function mirrors just enough of the indentation bookkeeping
// to recognise it (it returns false as soon as the real parser would have
// thrown an error earlier on the same input).
inline bool predicts_parser_ub(const std::string &text) {
  std::vector<size_t> levels;
  size_t ngroups = 0;
  std::istringstream in(text);
  std::string line;
  while (std::getline(in, line)) {
    size_t i = 0;
    while (i < line.size() && (line[i] == ' ' || line[i] == '\t'))
      ++i;
    if (i == line.size() || line[i] == '#')
      continue;
    const size_t h = line.find('#');
    if (h != std::string::npos)
      line = line.substr(0, h);
    const size_t colon = line.find(':');
    if (colon == std::string::npos)
      return false; // cmac_error first
    const bool header = trim(line.substr(colon + 1)).empty();
    // indentation is measured after the comment has been stripped
    size_t ind = 0;
    while (ind < line.size() && (line[ind] == ' ' || line[ind] == '\t'))
      ++ind;
    if (ind == line.size())
      ind = 0;
    if (ind > 0) {
      if (!levels.empty()) {
        if (ind > levels.back())
          levels.push_back(ind);
        else {
          while (ind < levels.back()) {
            levels.pop_back();
            if (ngroups == 0)
              return true; // groupname.erase on an empty vector
            --ngroups;
            if (levels.empty())
              return true; // the real loop now evaluates levels.back()
          }
        }
      } else
        levels.push_back(ind);
      if (levels.size() != ngroups)
        return false; // cmac_error
      if (header)
        ++ngroups;
    } else {
      if (ngroups != levels.size())
        return false; // cmac_error
      levels.clear();
      ngroups = 0;
      if (header)
        ++ngroups;
    }
  }
  return false;
}

struct YamlInfo {
  bool parsed = false;       // the first parse did not abort
  size_t nkeys = 0;
  size_t headers = 0, min_headers = 0;
  KeyShape shape;
  std::string printed;
};

inline std::string print_of(const YAMLDictionary &d) {
  std::ostringstream o;
  d.print_contents(o);
  return o.str();
}

// Returns "" if the round trip holds, otherwise what differs.  `expected` may
// be null (fuzzing: no independent expectation for the first parse).
inline std::string yaml_roundtrip(const std::string &filetext,
                                  const Flat *expected, YamlInfo &info) {
  YAMLDictionary *d1 = nullptr;
  try {
    std::istringstream in(filetext);
    d1 = new YAMLDictionary(in);
  } catch (const VerifAbort &e) {
    info.parsed = false;
    if (expected)
      return "parser rejected a well-formed file: " + e.msg;
    return "";
  }
  info.parsed = true;
  std::string result;
  const std::string t1 = print_of(*d1);
  info.printed = t1;
  Flat m1;
  std::string err;
  do {
    if (!refparse(t1, m1, err, &info.headers)) {
      result = "printed text is not well formed: " + err;
      break;
    }
    info.nkeys = m1.size();
    info.min_headers = minimal_headers(m1);
    info.shape = shape_of(m1);
    if (expected) {
      for (auto &kv : *expected) {
        if (!d1->has_value(kv.first)) {
          result = "parsed dictionary lacks key \"" + show(kv.first) + "\"";
          break;
        }
        const std::string v = d1->steal_value<std::string>(kv.first, "");
        if (v != kv.second) {
          result = "key \"" + show(kv.first) + "\": parsed value \"" + show(v) +
                   "\", file says \"" + show(kv.second) + "\"";
          break;
        }
      }
      if (!result.empty())
        break;
      if (m1 != *expected) {
        // find the first difference
        for (auto &kv : m1)
          if (!expected->count(kv.first)) {
            result = "printer emits key \"" + show(kv.first) +
                     "\" that is not in the file";
            break;
          } else if (expected->at(kv.first) != kv.second) {
            result = "printer emits \"" + show(kv.first) + ": " +
                     show(kv.second) + "\", file says \"" +
                     show(expected->at(kv.first)) + "\"";
            break;
          }
        if (result.empty())
          for (auto &kv : *expected)
            if (!m1.count(kv.first)) {
              result = "printer drops key \"" + show(kv.first) + "\"";
              break;
            }
        break;
      }
    } else {
      // every printed key must be what the dictionary holds
      for (auto &kv : m1) {
        if (!d1->has_value(kv.first) ||
            d1->steal_value<std::string>(kv.first, "") != kv.second) {
          result = "printed key \"" + show(kv.first) +
                   "\" is not what the dictionary holds";
          break;
        }
      }
      if (!result.empty())
        break;
    }
    // second generation
    YAMLDictionary *d2 = nullptr;
    try {
      std::istringstream in2(t1);
      d2 = new YAMLDictionary(in2);
    } catch (const VerifAbort &e) {
      result = "parser rejects the printer's output: " + e.msg;
      break;
    }
    for (auto &kv : m1) {
      if (!d2->has_value(kv.first)) {
        result = "key \"" + show(kv.first) + "\" lost by print -> parse";
        break;
      }
      const std::string v = d2->steal_value<std::string>(kv.first, "");
      if (v != kv.second) {
        result = "key \"" + show(kv.first) + "\": \"" + show(kv.second) +
                 "\" became \"" + show(v) + "\" by print -> parse";
        break;
      }
    }
    if (result.empty()) {
      const std::string t2 = print_of(*d2);
      if (t2 != t1) {
        Flat m2;
        if (!refparse(t2, m2, err))
          result = "second print is not well formed: " + err;
        else if (m2 != m1)
          result = sfmt("print -> parse -> print changes the dictionary "
                        "(%zu keys -> %zu keys)",
                        m1.size(), m2.size());
        else
          result = "print -> parse -> print is not idempotent (same keys, "
                   "different text)";
      }
    }
    delete d2;
  } while (false);
  delete d1;
  return result;
}

// ---------------------------------------------------------------------------
// units
struct UnitDef {
  const char *name;
  int L, T, M, K, A; // length, time, mass, temperature, angle exponents
};
// the dimension of each table unit is a definition ("a parsec is a length")
static const UnitDef unit_defs[] = {
    {"m", 1, 0, 0, 0, 0},        {"cm", 1, 0, 0, 0, 0},
    {"pc", 1, 0, 0, 0, 0},       {"kpc", 1, 0, 0, 0, 0},
    {"angstrom", 1, 0, 0, 0, 0}, {"km", 1, 0, 0, 0, 0},
    {"au", 1, 0, 0, 0, 0},       {"s", 0, 1, 0, 0, 0},
    {"Gyr", 0, 1, 0, 0, 0},      {"Myr", 0, 1, 0, 0, 0},
    {"yr", 0, 1, 0, 0, 0},       {"h", 0, 1, 0, 0, 0},
    {"kg", 0, 0, 1, 0, 0},       {"g", 0, 0, 1, 0, 0},
    {"Msol", 0, 0, 1, 0, 0},     {"K", 0, 0, 0, 1, 0},
    {"radians", 0, 0, 0, 0, 1},  {"degrees", 0, 0, 0, 0, 1},
    {"Hz", 0, -1, 0, 0, 0},      {"J", 2, -2, 1, 0, 0},
    {"erg", 2, -2, 1, 0, 0},     {"eV", 2, -2, 1, 0, 0},
    {"Pa", -1, -2, 1, 0, 0},     {"bar", -1, -2, 1, 0, 0}};
static const int n_unit_defs = sizeof(unit_defs) / sizeof(unit_defs[0]);

inline const UnitDef *find_unit(const std::string &n) {
  for (int i = 0; i < n_unit_defs; ++i)
    if (n == unit_defs[i].name)
      return &unit_defs[i];
  return nullptr;
}

inline double unit_value(Unit u) { return 1. * u; }

struct Factor {
  std::string name;
  int exp;
};

struct UnitRef {
  long double value = 1.L; // product of parts in long double
  bool in_range = true;    // every partial product stayed inside double range
  int L = 0, T = 0, M = 0, K = 0, A = 0;
  int ops = 0; // number of floating-point operations the code needs
};

// product of parts from the code's own single-unit values
inline UnitRef unit_reference(const std::vector<Factor> &fs) {
  UnitRef r;
  for (auto &f : fs) {
    const UnitDef *d = find_unit(f.name);
    const long double single = unit_value(UnitConverter::get_single_unit(f.name));
    long double p = 1.L;
    const int n = std::abs(f.exp);
    for (int k = 0; k < n; ++k) {
      p = (f.exp > 0) ? p * single : p / single;
      const long double a = fabsl(p);
      if (a > 1e300L || a < 1e-300L)
        r.in_range = false;
    }
    r.value *= p;
    const long double a = fabsl(r.value);
    if (a > 1e300L || a < 1e-300L)
      r.in_range = false;
    r.ops += n + 1;
    r.L += d->L * f.exp;
    r.T += d->T * f.exp;
    r.M += d->M * f.exp;
    r.K += d->K * f.exp;
    r.A += d->A * f.exp;
  }
  return r;
}

inline bool close_rel(long double a, long double b, double k) {
  const long double eps = 0x1p-52L;
  return fabsl(a - b) <= k * eps * std::max(fabsl(a), fabsl(b));
}

// get_unit("...") against the product of its parts; "" if it agrees
inline std::string check_compound(const std::string &text,
                                  const std::vector<Factor> &fs,
                                  const UnitRef &ref) {
  const Unit u = UnitConverter::get_unit(text);
  const Unit dims(1., ref.L, ref.T, ref.M, ref.K, 0, ref.A);
  if (!u.is_same_quantity(dims))
    return sfmt("get_unit(\"%s\") = %s: exponents differ from the sum of the "
                "parts (m^%d s^%d kg^%d K^%d rad^%d)",
                text.c_str(), u.to_string().c_str(), ref.L, ref.T, ref.M, ref.K,
                ref.A);
  const double v = unit_value(u);
  if (!close_rel(v, ref.value, 4. * (ref.ops + 2)))
    return sfmt("get_unit(\"%s\") has SI value %.17g, product of parts %.17Lg",
                text.c_str(), v, ref.value);
  return "";
}

#define C20_FOR_ALL_QUANTITIES(X)                                              \
  X(QUANTITY_ACCELERATION)                                                     \
  X(QUANTITY_ANGLE)                                                            \
  X(QUANTITY_DENSITY)                                                          \
  X(QUANTITY_ENERGY)                                                           \
  X(QUANTITY_ENERGY_CHANGE_RATE)                                               \
  X(QUANTITY_ENERGY_RATE)                                                      \
  X(QUANTITY_FLUX)                                                             \
  X(QUANTITY_FORCING_POWER)                                                    \
  X(QUANTITY_FREQUENCY)                                                        \
  X(QUANTITY_FREQUENCY_PER_MASS)                                               \
  X(QUANTITY_INVERSE_LENGTH)                                                   \
  X(QUANTITY_INVERSE_SURFACE_AREA)                                             \
  X(QUANTITY_LENGTH)                                                           \
  X(QUANTITY_MASS)                                                             \
  X(QUANTITY_MASS_RATE)                                                        \
  X(QUANTITY_MOMENTUM)                                                         \
  X(QUANTITY_NUMBER_DENSITY)                                                   \
  X(QUANTITY_OPACITY)                                                          \
  X(QUANTITY_PRESSURE)                                                         \
  X(QUANTITY_REACTION_RATE)                                                    \
  X(QUANTITY_SURFACE_AREA)                                                     \
  X(QUANTITY_SURFACE_DENSITY)                                                  \
  X(QUANTITY_TEMPERATURE)                                                      \
  X(QUANTITY_TIME)                                                             \
  X(QUANTITY_VELOCITY)                                                         \
  X(QUANTITY_VOLUME)

inline double to_SI_q(int q, double v, const std::string &u) {
  switch (q) {
#define X(Q)                                                                   \
  case Q:                                                                      \
    return UnitConverter::to_SI<Q>(v, u);
    C20_FOR_ALL_QUANTITIES(X)
#undef X
  }
  throw VerifAbort{__FILE__, __LINE__, "bad quantity index"};
}
inline double to_unit_q(int q, double v, const std::string &u) {
  switch (q) {
#define X(Q)                                                                   \
  case Q:                                                                      \
    return UnitConverter::to_unit<Q>(v, u);
    C20_FOR_ALL_QUANTITIES(X)
#undef X
  }
  throw VerifAbort{__FILE__, __LINE__, "bad quantity index"};
}

// dimension of each Quantity (definition; order L T M K A)
struct QDim {
  int L, T, M, K, A;
};
inline QDim quantity_dim(int q) {
  switch (q) {
  case QUANTITY_ACCELERATION:
    return {1, -2, 0, 0, 0};
  case QUANTITY_ANGLE:
    return {0, 0, 0, 0, 1};
  case QUANTITY_DENSITY:
    return {-3, 0, 1, 0, 0};
  case QUANTITY_ENERGY:
    return {2, -2, 1, 0, 0};
  case QUANTITY_ENERGY_CHANGE_RATE:
    return {-1, -3, 1, 0, 0};
  case QUANTITY_ENERGY_RATE:
    return {2, -3, 1, 0, 0};
  case QUANTITY_FLUX:
    return {-2, -1, 0, 0, 0};
  case QUANTITY_FORCING_POWER:
    return {2, -3, 0, 0, 0};
  case QUANTITY_FREQUENCY:
    return {0, -1, 0, 0, 0};
  case QUANTITY_FREQUENCY_PER_MASS:
    return {0, -1, -1, 0, 0};
  case QUANTITY_INVERSE_LENGTH:
    return {-1, 0, 0, 0, 0};
  case QUANTITY_INVERSE_SURFACE_AREA:
    return {-2, 0, 0, 0, 0};
  case QUANTITY_LENGTH:
    return {1, 0, 0, 0, 0};
  case QUANTITY_MASS:
    return {0, 0, 1, 0, 0};
  case QUANTITY_MASS_RATE:
    return {0, -1, 1, 0, 0};
  case QUANTITY_MOMENTUM:
    return {1, -1, 1, 0, 0};
  case QUANTITY_NUMBER_DENSITY:
    return {-3, 0, 0, 0, 0};
  case QUANTITY_OPACITY:
    return {-1, 0, 0, 0, 0};
  case QUANTITY_PRESSURE:
    return {-1, -2, 1, 0, 0};
  case QUANTITY_REACTION_RATE:
    return {3, -1, 0, 0, 0};
  case QUANTITY_SURFACE_AREA:
    return {2, 0, 0, 0, 0};
  case QUANTITY_SURFACE_DENSITY:
    return {-2, 0, 1, 0, 0};
  case QUANTITY_TEMPERATURE:
    return {0, 0, 0, 1, 0};
  case QUANTITY_TIME:
    return {0, 1, 0, 0, 0};
  case QUANTITY_VELOCITY:
    return {1, -1, 0, 0, 0};
  case QUANTITY_VOLUME:
    return {3, 0, 0, 0, 0};
  }
  return {0, 0, 0, 0, 0};
}

// render factors as a unit string; `style` bits choose the spacing variants
// that UnitConverter::get_unit documents (leading/trailing/multiple blanks, no
// blank after an exponent, explicit '+', explicit "^1")
inline std::string render_unit(const std::vector<Factor> &fs,
                               const std::vector<int> &style) {
  std::string s;
  for (size_t i = 0; i < fs.size(); ++i) {
    const int st = i < style.size() ? style[i] : 0;
    const bool prev_has_exp =
        i > 0 && (fs[i - 1].exp != 1 || ((i - 1 < style.size() ? style[i - 1] : 0) & 4));
    if (i == 0) {
      if (st & 1)
        s += " ";
    } else {
      // a blank is mandatory unless the previous factor ended in an exponent
      if (!(prev_has_exp && (st & 1)))
        s += (st & 2) ? "  " : " ";
    }
    s += fs[i].name;
    if (fs[i].exp != 1 || (st & 4)) {
      s += "^";
      if (fs[i].exp > 0 && (st & 8))
        s += "+";
      s += std::to_string(fs[i].exp);
    }
  }
  if (!style.empty() && (style.back() & 16))
    s += " ";
  return s;
}

} // namespace c20

#endif // C20_ORACLE_HPP
