// Pre-included (-include) replacement for /repo/src/Error.hpp in in-process
// harnesses: cmac_error throws a catchable VerifAbort instead of abort(), so a
// property can distinguish "clean rejection of an invalid input" from "abort on
// a valid input".  Warnings and status messages are silenced.  Assertions stay
// off so the tested code is the production code.
#ifndef ERROR_HPP
#define ERROR_HPP

#include "Configuration.hpp"

#include <cstdint>
#include <cstdio>
#include <cstdlib>
#include <string>

struct VerifAbort {
  std::string file;
  int line;
  std::string msg;
};

#define print_indent(stream, s, ...)                                           \
  { fprintf(stream, s, ##__VA_ARGS__); fprintf(stream, "\n"); }

#define cmac_error(s, ...)                                                     \
  {                                                                            \
    char verif_buffer_[4096];                                                  \
    snprintf(verif_buffer_, sizeof(verif_buffer_), s, ##__VA_ARGS__);          \
    throw VerifAbort{__FILE__, __LINE__, verif_buffer_};                       \
  }

#define cmac_warning(s, ...)                                                   \
  {}
#define cmac_status(s, ...)                                                    \
  {}
#define cmac_assert(condition)
#define cmac_assert_message(condition, s, ...)

#endif // ERROR_HPP
