// C20 (b) - unit algebra sub-checks of the rapidcheck harness.
#ifndef C20_UNITS_CHECKS_HPP
#define C20_UNITS_CHECKS_HPP

#include "c20_oracle.hpp"
#include "verif_rc.hpp"

namespace c20h {

using vr::VCase;
using vr::VProp;
using vr::VResult;
using vr::fmt;

// ---- factors <-> VCase
inline void put_factors(VCase &c, const std::string &prefix,
                        const std::vector<c20::Factor> &fs,
                        const std::vector<int> &style) {
  std::vector<int64_t> idx, ex, st;
  for (size_t i = 0; i < fs.size(); ++i) {
    int k = 0;
    while (fs[i].name != c20::unit_defs[k].name)
      ++k;
    idx.push_back(k);
    ex.push_back(fs[i].exp);
    st.push_back(i < style.size() ? style[i] : 0);
  }
  c.I(prefix + "_unit", idx);
  c.I(prefix + "_exp", ex);
  c.I(prefix + "_style", st);
}
inline void get_factors(const VCase &c, const std::string &prefix,
                        std::vector<c20::Factor> &fs, std::vector<int> &style) {
  const auto &idx = c.iv(prefix + "_unit");
  const auto &ex = c.iv(prefix + "_exp");
  const auto &st = c.iv(prefix + "_style");
  fs.clear();
  style.clear();
  for (size_t i = 0; i < idx.size(); ++i) {
    fs.push_back({c20::unit_defs[idx[i]].name, (int)ex[i]});
    style.push_back((int)st[i]);
  }
}

inline int gen_style() {
  int s = 0;
  if (vr::coin(0.15))
    s |= 1; // leading blank / no blank after an exponent
  if (vr::coin(0.1))
    s |= 2; // two blanks
  if (vr::coin(0.1))
    s |= 4; // explicit ^1
  if (vr::coin(0.1))
    s |= 8; // explicit +
  if (vr::coin(0.1))
    s |= 16; // trailing blank
  return s;
}

// -------------------------------------------------------------- unit_algebra
inline VCase gen_algebra() {
  VCase c;
  const int n = (int)vr::irange(1, 4);
  std::vector<c20::Factor> fs;
  std::vector<int> style;
  const bool zero_class = vr::coin(0.08);
  for (int i = 0; i < n; ++i) {
    int e;
    switch (vr::weighted({4, 3, 3})) {
    case 0:
      e = 1;
      break;
    case 1:
      e = -(int)vr::irange(1, 4);
      break;
    default:
      e = (int)vr::irange(2, 4);
    }
    fs.push_back({c20::unit_defs[vr::irange(0, c20::n_unit_defs - 1)].name, e});
    style.push_back(gen_style());
  }
  if (zero_class)
    fs[vr::irange(0, n - 1)].exp = 0;
  put_factors(c, "f", fs, style);
  return c;
}

inline VResult o_algebra(const VCase &c) {
  VResult r;
  std::vector<c20::Factor> fs;
  std::vector<int> style;
  get_factors(c, "f", fs, style);
  const std::string text = c20::render_unit(fs, style);
  int nneg = 0;
  bool zero = false, spacing = false;
  for (size_t i = 0; i < fs.size(); ++i) {
    nneg += fs[i].exp < 0;
    zero = zero || fs[i].exp == 0;
    spacing = spacing || style[i] != 0;
  }
  r.label(fmt("factors-%zu", fs.size()));
  if (spacing)
    r.label("spacing-variant");
  if (nneg >= 2)
    r.label("two-negative-exponents");
  const c20::UnitRef ref = c20::unit_reference(fs);
  if (!ref.in_range) {
    r.label("outside-double-range");
    return r; // some partial product over/underflows: nothing to compare
  }
  if (zero)
    r.label("exponent-0");
  r.nontrivial = fs.size() >= 2 && nneg >= 1;
  const std::string msg = c20::check_compound(text, fs, ref);
  if (!msg.empty()) {
    r.fail(msg);
  }
  return r;
}

// ---------------------------------------------------------- unit_si_roundtrip
// alternatives for each base dimension and for the derived names
inline std::vector<c20::Factor> gen_unit_for(const c20::QDim &d) {
  static const std::vector<std::string> Ls = {"m", "cm", "pc", "kpc",
                                              "angstrom", "km", "au"};
  static const std::vector<std::string> Ts = {"s", "Gyr", "Myr", "yr", "h"};
  static const std::vector<std::string> Ms = {"kg", "g", "Msol"};
  static const std::vector<std::string> As = {"radians", "degrees"};
  static const std::vector<std::string> Es = {"J", "erg", "eV"};
  static const std::vector<std::string> Ps = {"Pa", "bar"};
  int L = d.L, T = d.T, M = d.M, K = d.K, A = d.A;
  std::vector<c20::Factor> fs;
  // optionally absorb mass into an energy or pressure unit, time into Hz
  if (M != 0 && vr::coin(0.4)) {
    if (vr::coin(0.6)) {
      fs.push_back({vr::pick(Es), M});
      L -= 2 * M;
      T += 2 * M;
    } else {
      fs.push_back({vr::pick(Ps), M});
      L += M;
      T += 2 * M;
    }
    M = 0;
  }
  if (T < 0 && vr::coin(0.3)) {
    fs.push_back({"Hz", -T});
    T = 0;
  }
  auto split = [&](int e, const std::vector<std::string> &names) {
    if (e == 0)
      return;
    if (std::abs(e) >= 2 && vr::coin(0.25)) {
      // the same dimension through two different units
      const int a = (e > 0) ? 1 : -1;
      fs.push_back({vr::pick(names), a});
      fs.push_back({vr::pick(names), e - a});
    } else
      fs.push_back({vr::pick(names), e});
  };
  split(M, Ms);
  split(L, Ls);
  split(T, Ts);
  if (K)
    fs.push_back({"K", K});
  split(A, As);
  // a cancelling pair adds factors (and negative exponents) without changing
  // the quantity
  if (vr::coin(0.25)) {
    const c20::UnitDef &u = c20::unit_defs[vr::irange(0, c20::n_unit_defs - 1)];
    const int e = (int)vr::irange(1, 2);
    fs.push_back({u.name, e});
    fs.push_back({u.name, -e});
  }
  if (fs.empty())
    fs.push_back({"radians", 1}); // cannot happen for the listed quantities
  // shuffle
  for (size_t i = fs.size(); i > 1; --i)
    std::swap(fs[i - 1], fs[vr::irange(0, (int64_t)i - 1)]);
  // merge exponent-0 artefacts: drop factors whose exponent became 0
  std::vector<c20::Factor> out;
  for (auto &f : fs)
    if (f.exp != 0)
      out.push_back(f);
  return out;
}

inline double gen_magnitude() {
  switch (vr::weighted({3, 2, 1, 1})) {
  case 0:
    return vr::logu(1e-15, 1e15);
  case 1:
    return vr::dyadic(1., 1024., 10);
  case 2:
    return -vr::logu(1e-6, 1e6);
  default:
    return vr::coin(0.5) ? 1. : 0.;
  }
}

inline VCase gen_si() {
  VCase c;
  const int q = (int)vr::irange(0, NUMBER_OF_QUANTITIES - 1);
  c.I("quantity", q);
  const c20::QDim d = c20::quantity_dim(q);
  for (const char *p : {"a", "b"}) {
    std::vector<c20::Factor> fs = gen_unit_for(d);
    std::vector<int> st;
    for (size_t i = 0; i < fs.size(); ++i)
      st.push_back(gen_style());
    put_factors(c, p, fs, st);
  }
  c.D("v", gen_magnitude());
  return c;
}

inline VResult o_si(const VCase &c) {
  VResult r;
  const int q = (int)c.i("quantity");
  std::vector<c20::Factor> fa, fb;
  std::vector<int> sa, sb;
  get_factors(c, "a", fa, sa);
  get_factors(c, "b", fb, sb);
  const std::string ua = c20::render_unit(fa, sa), ub = c20::render_unit(fb, sb);
  const double v = c.d("v");
  const c20::UnitRef ra = c20::unit_reference(fa), rb = c20::unit_reference(fb);
  int nneg = 0;
  for (auto &f : fa)
    nneg += f.exp < 0;
  r.label(fmt("factors-%zu", std::min<size_t>(fa.size(), 4)));
  if (nneg >= 2)
    r.label("two-negative-exponents");
  if (v == 0.)
    r.label("value-0");
  const long double si_ref = (long double)v * ra.value;
  const long double b_ref = si_ref / rb.value;
  auto ok_range = [](long double x) {
    return x == 0.L || (fabsl(x) < 1e290L && fabsl(x) > 1e-290L);
  };
  if (!ra.in_range || !rb.in_range || !ok_range(si_ref) || !ok_range(b_ref) ||
      !ok_range(ra.value / rb.value) || !ok_range(rb.value / ra.value)) {
    r.label("outside-double-range");
    return r;
  }
  r.nontrivial = fa.size() >= 2 && nneg >= 1;
  // the SI unit of the quantity has the dimension the definition says
  const c20::QDim d = c20::quantity_dim(q);
  if (!UnitConverter::get_SI_unit(q).is_same_quantity(
          Unit(1., d.L, d.T, d.M, d.K, 0, d.A)) ||
      c20::unit_value(UnitConverter::get_SI_unit(q)) != 1.)
    r.fail(fmt("SI unit of quantity %d is \"%s\"", q,
               UnitConverter::get_SI_unit(q).to_string().c_str()));
  const double si = c20::to_SI_q(q, v, ua);
  if (!c20::close_rel(si, si_ref, 4. * (ra.ops + 3)))
    r.fail(fmt("to_SI<%d>(%.17g, \"%s\") = %.17g, value x product of parts = "
               "%.17Lg",
               q, v, ua.c_str(), si, si_ref));
  const double back = c20::to_unit_q(q, si, ua);
  if (!c20::close_rel(back, v, 8.))
    r.fail(fmt("to_unit<%d>(to_SI(%.17g, \"%s\")) = %.17g", q, v, ua.c_str(),
               back));
  // SI -> SI is the identity
  const std::string siname = UnitConverter::get_SI_unit_name(q);
  if (c20::to_SI_q(q, v, siname) != v || c20::to_unit_q(q, v, siname) != v)
    r.fail(fmt("converting %.17g \"%s\" to SI changes it", v, siname.c_str()));
  // a -> b -> a
  const double inb = UnitConverter::convert(v, ua, ub);
  if (!c20::close_rel(inb, b_ref, 4. * (ra.ops + rb.ops + 4)))
    r.fail(fmt("convert(%.17g, \"%s\", \"%s\") = %.17g, reference %.17Lg", v,
               ua.c_str(), ub.c_str(), inb, b_ref));
  const double again = UnitConverter::convert(inb, ub, ua);
  if (!c20::close_rel(again, v, 4. * (ra.ops + rb.ops + 4)))
    r.fail(fmt("convert a->b->a: %.17g \"%s\" -> %.17g \"%s\" -> %.17g", v,
               ua.c_str(), inb, ub.c_str(), again));
  const double prod = UnitConverter::convert(1., ua, ub) *
                      UnitConverter::convert(1., ub, ua);
  if (!c20::close_rel(prod, 1.L, 4. * (ra.ops + rb.ops + 4)))
    r.fail(fmt("convert(1,a,b)*convert(1,b,a) = %.17g for a=\"%s\" b=\"%s\"",
               prod, ua.c_str(), ub.c_str()));
  // to_SI and to_unit agree with convert
  const double viab = c20::to_unit_q(q, si, ub);
  if (!c20::close_rel(viab, inb, 4. * (ra.ops + rb.ops + 4)))
    r.fail(fmt("to_unit(to_SI(v,a),b) = %.17g but convert(v,a,b) = %.17g", viab,
               inb));
  return r;
}

// ------------------------------------------------------------------ unit_cross
inline VCase gen_cross() {
  VCase c;
  c.I("kind", vr::irange(0, 1)); // 0: energy<->frequency, 1: length<->frequency
  c.I("ua", vr::irange(0, 9));
  c.I("ub", vr::irange(0, 9));
  c.D("v", vr::coin(0.2) ? vr::dyadic(1., 64., 6) : vr::logu(1e-9, 1e9));
  return c;
}
inline VResult o_cross(const VCase &c) {
  VResult r;
  static const std::vector<std::string> E = {"J", "erg", "eV", "kg m^2 s^-2",
                                             "g cm^2 s^-2", "Pa m^3"};
  static const std::vector<std::string> Lw = {"m", "cm", "angstrom", "km",
                                              "pc", "au", "m^2 m^-1"};
  static const std::vector<std::string> F = {"Hz", "s^-1", "yr^-1", "Hz^2 s",
                                             "h^-1"};
  const int kind = (int)c.i("kind");
  const std::vector<std::string> &Aset = kind == 0 ? E : Lw;
  const std::string ua = Aset[c.i("ua") % Aset.size()];
  const std::string ub = F[c.i("ub") % F.size()];
  const double v = c.d("v");
  r.label(kind == 0 ? "energy-frequency" : "wavelength-frequency");
  r.nontrivial = ua.find('^') != std::string::npos ||
                 ub.find('^') != std::string::npos;
  const double f = UnitConverter::convert(v, ua, ub);
  const double back = UnitConverter::convert(f, ub, ua);
  if (!(f > 0.) || !std::isfinite(f))
    r.fail(fmt("convert(%.17g, \"%s\", \"%s\") = %g", v, ua.c_str(), ub.c_str(),
               f));
  if (!c20::close_rel(back, v, 32.))
    r.fail(fmt("%.17g \"%s\" -> %.17g \"%s\" -> %.17g \"%s\": not inverse", v,
               ua.c_str(), f, ub.c_str(), back, ua.c_str()));
  // scaling law: E ~ nu, lambda ~ 1/nu (power-of-two scaling is exact)
  const double f2 = UnitConverter::convert(2. * v, ua, ub);
  const double want = kind == 0 ? 2. * f : 0.5 * f;
  if (!c20::close_rel(f2, want, 4.))
    r.fail(fmt("doubling the %s changes the frequency from %.17g to %.17g",
               kind == 0 ? "energy" : "wavelength", f, f2));
  // the typed interface agrees with convert()
  const double t = UnitConverter::to_SI<QUANTITY_FREQUENCY>(v, ua);
  const double hz = UnitConverter::convert(v, ua, "Hz");
  if (!c20::close_rel(t, hz, 8.))
    r.fail(fmt("to_SI<FREQUENCY>(%.17g,\"%s\") = %.17g, convert(..,\"Hz\") = "
               "%.17g",
               v, ua.c_str(), t, hz));
  const double a_si = kind == 0 ? UnitConverter::to_SI<QUANTITY_ENERGY>(v, ua)
                                : UnitConverter::to_SI<QUANTITY_LENGTH>(v, ua);
  const double hz2 = kind == 0
                         ? UnitConverter::to_unit<QUANTITY_ENERGY>(a_si, "Hz")
                         : UnitConverter::to_unit<QUANTITY_LENGTH>(a_si, "Hz");
  if (!c20::close_rel(hz2, hz, 16.))
    r.fail(fmt("to_unit(to_SI(%.17g,\"%s\"),\"Hz\") = %.17g, convert = %.17g",
               v, ua.c_str(), hz2, hz));
  // chain through the third quantity: E -> nu -> lambda -> nu -> E
  {
    const double nu = UnitConverter::convert(v, ua, "Hz");
    const std::string other = kind == 0 ? "angstrom" : "eV";
    const double o = UnitConverter::convert(nu, "Hz", other);
    const double nu2 = UnitConverter::convert(o, other, "Hz");
    if (!c20::close_rel(nu2, nu, 32.))
      r.fail(fmt("%.17g Hz -> %.17g %s -> %.17g Hz", nu, o, other.c_str(),
                 nu2));
  }
  return r;
}

// ------------------------------------------------------------------ unit_table
struct Relation {
  const char *lhs, *rhs;
  double factor; // value(lhs) == factor * value(rhs)
  double ulps;   // allowed relative difference in units of 2^-52
};
static const Relation relations[] = {
    {"kpc", "pc", 1000., 2},       {"Gyr", "Myr", 1000., 2},
    {"Myr", "yr", 1e6, 2},         {"Gyr", "yr", 1e9, 2},
    {"km", "m", 1000., 2},         {"m", "cm", 100., 2},
    {"km", "cm", 1e5, 2},          {"m", "angstrom", 1e10, 2},
    {"kg", "g", 1000., 2},         {"J", "erg", 1e7, 2},
    {"bar", "Pa", 1e5, 2},         {"h", "s", 3600., 0},
    {"J", "kg m^2 s^-2", 1., 0},   {"Pa", "kg m^-1 s^-2", 1., 0},
    {"Pa", "J m^-3", 1., 0},       {"Hz", "s^-1", 1., 0},
    {"erg", "g cm^2 s^-2", 1., 8}, {"au", "m", 149597870700., 0},
    {"m", "m", 1., 0},             {"s", "s", 1., 0},
    {"kg", "kg", 1., 0},           {"K", "K", 1., 0},
    {"radians", "radians", 1., 0},
    // physical anchors (0.5 %): not a self-consistency statement, but no
    // correct table can violate them
    {"pc", "m", 3.0857e16, 0.005 * 0x1p52},
    {"yr", "s", 3.15576e7, 0.005 * 0x1p52},
    {"Msol", "kg", 1.9885e30, 0.005 * 0x1p52},
    {"pc", "au", 206264.806, 0.005 * 0x1p52}};
static const int n_relations = sizeof(relations) / sizeof(relations[0]);

inline VCase gen_table() {
  VCase c;
  c.I("relation", vr::irange(0, n_relations + 2));
  return c;
}
inline VResult o_table(const VCase &c) {
  VResult r;
  const int k = (int)c.i("relation");
  r.nontrivial = true;
  if (k < n_relations) {
    const Relation &rel = relations[k];
    r.label(rel.ulps > 100 ? "physical-anchor" : "table-relation");
    const Unit a = UnitConverter::get_unit(rel.lhs);
    const Unit b = UnitConverter::get_unit(rel.rhs);
    if (!a.is_same_quantity(b))
      r.fail(fmt("\"%s\" (%s) and \"%s\" (%s) are different quantities",
                 rel.lhs, a.to_string().c_str(), rel.rhs,
                 b.to_string().c_str()));
    const double va = c20::unit_value(a), vb = c20::unit_value(b);
    if (!c20::close_rel(va, (long double)rel.factor * vb, rel.ulps))
      r.fail(fmt("1 %s = %.17g SI but %g %s = %.17g SI", rel.lhs, va,
                 rel.factor, rel.rhs, rel.factor * vb));
    // the same statement through convert()
    const double cv = UnitConverter::convert(1., rel.lhs, rel.rhs);
    if (!c20::close_rel(cv, rel.factor, rel.ulps + 2))
      r.fail(fmt("convert(1, \"%s\", \"%s\") = %.17g, expected %g", rel.lhs,
                 rel.rhs, cv, rel.factor));
  } else if (k == n_relations) {
    r.label("table-relation");
    const Unit u = UnitConverter::get_unit("Hz s");
    if (!u.is_same_quantity(Unit(1., 0, 0, 0, 0, 0, 0)) ||
        c20::unit_value(u) != 1.)
      r.fail("Hz s is not the dimensionless 1: " + u.to_string());
  } else if (k == n_relations + 1) {
    r.label("table-relation");
    const double deg = c20::unit_value(UnitConverter::get_unit("degrees"));
    if (!c20::close_rel(180. * deg, 3.14159265358979323846L, 2))
      r.fail(fmt("180 degrees = %.17g radians", 180. * deg));
  } else {
    r.label("table-relation");
    const double ev = c20::unit_value(UnitConverter::get_unit("eV"));
    if (ev != PhysicalConstants::get_physical_constant(
                  PHYSICALCONSTANT_ELECTRONVOLT))
      r.fail(fmt("1 eV = %.17g J in the unit table, %.17g J in "
                 "PhysicalConstants",
                 ev,
                 PhysicalConstants::get_physical_constant(
                     PHYSICALCONSTANT_ELECTRONVOLT)));
  }
  return r;
}

inline void add_unit_props(std::vector<VProp> &props) {
  props.push_back(
      {"unit_algebra", 50000, gen_algebra, o_algebra,
       "1..4 factors drawn from the 24 table units with exponents -4..4 "
       "(exponent 0 as a separately labelled class), rendered with the spacing "
       "variants get_unit documents; reference = product of the code's own "
       "single-unit values in long double, 4 eps per operation; non-trivial = "
       ">= 2 factors with at least one negative exponent",
       {{"two-negative-exponents", 0.05}, {"exponent-0", 0.01}}});
  props.push_back(
      {"unit_si_roundtrip", 30000, gen_si, o_si,
       "all 26 quantities; two unit strings of the right dimension built from "
       "alternative base units, energy/pressure/Hz aliases, split exponents "
       "and cancelling pairs; to_SI vs product of parts, to_unit(to_SI(v)), "
       "convert a->b->a, convert(1,a,b)*convert(1,b,a); non-trivial = >= 2 "
       "factors with a negative exponent",
       {{"two-negative-exponents", 0.05}}});
  props.push_back({"unit_cross", 4000, gen_cross, o_cross,
                   "energy <-> frequency and wavelength <-> frequency through "
                   "convert/to_SI/to_unit: mutual inverses, E~nu and "
                   "lambda~1/nu scaling, chain through the third quantity; "
                   "non-trivial = a compound unit string on either side",
                   {}});
  props.push_back({"unit_table", 600, gen_table, o_table,
                   "the fixed list of table relations (kpc/pc, Gyr/Myr/yr, "
                   "km/m/cm/angstrom, kg/g, J/erg, bar/Pa, h/s, Hz s, J and Pa "
                   "in base units, degrees, eV, au) and four 0.5 % physical "
                   "anchors; every case is non-trivial",
                   {}});
}

} // namespace c20h

#endif
