// C16 helper: run an oracle in a forked child so that an endless loop, a crash
// or an out-of-range access inside the code under test becomes an ordinary,
// shrinkable, replayable failing case instead of a hung / dead harness.
//
// The child gets a CPU-time limit (RLIMIT_CPU, robust against machine load);
// the parent additionally waits at most WALL_BACKSTOP seconds.  The VResult is
// sent back through a pipe as plain text.
#ifndef C16_GUARD_HPP
#define C16_GUARD_HPP

#include "verif_rc.hpp"

#include <memory>
#include <poll.h>
#include <signal.h>
#include <sys/resource.h>
#include <sys/time.h>
#include <sys/wait.h>
#include <unistd.h>

namespace c16 {

inline std::string ser(const vr::VResult &r) {
  std::ostringstream o;
  o << (r.ok ? 1 : 0) << "\n" << (r.nontrivial ? 1 : 0) << "\n";
  o << vr::VCase::esc(r.known) << "\n" << vr::VCase::esc(r.msg) << "\n";
  o << r.labels.size() << "\n";
  for (auto &l : r.labels)
    o << vr::VCase::esc(l) << "\n";
  o << "END\n";
  return o.str();
}

inline bool deser(const std::string &s, vr::VResult &r) {
  std::istringstream in(s);
  std::string line;
  auto get = [&](std::string &out) { return (bool)std::getline(in, out); };
  std::string a, b, k, m, n;
  if (!get(a) || !get(b) || !get(k) || !get(m) || !get(n))
    return false;
  r.ok = a == "1";
  r.nontrivial = b == "1";
  r.known = vr::VCase::unesc(k);
  r.msg = vr::VCase::unesc(m);
  const size_t nl = strtoul(n.c_str(), nullptr, 10);
  r.labels.clear();
  for (size_t i = 0; i < nl; ++i) {
    if (!get(line))
      return false;
    r.labels.push_back(vr::VCase::unesc(line));
  }
  if (!get(line) || line != "END")
    return false;
  return true;
}

// The child can announce, before it calls into the code under test, that the
// next call belongs to a known-finding class (matcher name, or "" for none).
// If the call then crashes or never returns, the parent attributes the failure
// to that class.
inline int &pre_fd() {
  static int fd = -1;
  return fd;
}
inline void announce(const std::string &known) {
  if (pre_fd() < 0)
    return;
  const std::string s = "PRE " + known + "\n";
  ssize_t w = write(pre_fd(), s.data(), s.size());
  (void)w;
}

// number of CPU-limit hits seen by this process (later hits use a shorter budget
// so that shrinking a genuine endless loop stays affordable)
inline int &hang_count() {
  static int n = 0;
  return n;
}

inline std::function<vr::VResult(const vr::VCase &)>
guarded(std::function<vr::VResult(const vr::VCase &)> f) {
  // per sub-check state: bounds the cost of shrinking a failure (every shrink
  // candidate is a fork; a candidate that loops forever costs its CPU budget)
  struct State {
    int fails = 0, hangs = 0;
  };
  std::shared_ptr<State> st(new State());
  auto run = [f](const vr::VCase &c) -> vr::VResult {
    if (getenv("C16_NOFORK"))
      return f(c);
    int fd[2];
    vr::VResult r;
    if (pipe(fd) != 0) {
      r.fail("harness: pipe() failed");
      return r;
    }
    fflush(stdout);
    fflush(stderr);
    const int cpu_budget = hang_count() == 0 ? 3 : 1;
    const pid_t pid = fork();
    if (pid < 0) {
      close(fd[0]);
      close(fd[1]);
      r.fail("harness: fork() failed");
      return r;
    }
    if (pid == 0) {
      close(fd[0]);
      struct rlimit rl;
      rl.rlim_cur = cpu_budget;
      rl.rlim_max = cpu_budget + 2;
      setrlimit(RLIMIT_CPU, &rl);
      // no core files
      rl.rlim_cur = rl.rlim_max = 0;
      setrlimit(RLIMIT_CORE, &rl);
      vr::VResult cr;
      pre_fd() = fd[1];
      try {
        cr = f(c);
      } catch (const VerifAbort &e) {
        cr.fail("unexpected abort at " + e.file + ":" + std::to_string(e.line) +
                ": " + e.msg);
      } catch (const std::exception &e) {
        cr.fail(std::string("unexpected exception: ") + e.what());
      }
      const std::string s = "RES\n" + ser(cr);
      size_t off = 0;
      while (off < s.size()) {
        const ssize_t w = write(fd[1], s.data() + off, s.size() - off);
        if (w <= 0)
          break;
        off += (size_t)w;
      }
      close(fd[1]);
      _exit(0);
    }
    close(fd[1]);
    std::string buf;
    char tmp[4096];
    bool timeout = false;
    const int WALL_BACKSTOP_MS = 120000;
    for (;;) {
      struct pollfd p;
      p.fd = fd[0];
      p.events = POLLIN;
      const int pr = poll(&p, 1, WALL_BACKSTOP_MS);
      if (pr == 0) {
        timeout = true;
        break;
      }
      if (pr < 0) {
        if (errno == EINTR)
          continue;
        break;
      }
      const ssize_t n = read(fd[0], tmp, sizeof tmp);
      if (n <= 0)
        break;
      buf.append(tmp, (size_t)n);
    }
    close(fd[0]);
    if (timeout)
      kill(pid, SIGKILL);
    int status = 0;
    waitpid(pid, &status, 0);
    // split the announcements from the result
    std::string announced;
    {
      std::string rest;
      std::istringstream in(buf);
      std::string line;
      bool inres = false;
      while (std::getline(in, line)) {
        if (inres)
          rest += line + "\n";
        else if (line == "RES")
          inres = true;
        else if (line.compare(0, 4, "PRE ") == 0)
          announced = line.substr(4);
        else if (line == "PRE")
          announced = "";
      }
      buf = rest;
    }
    if (timeout) {
      ++hang_count();
      r.label("guard-timeout");
      r.fail("no termination: the call did not return within the wall-clock "
             "backstop (120 s)");
      r.known = announced;
      return r;
    }
    if (WIFSIGNALED(status)) {
      const int sig = WTERMSIG(status);
      if (sig == SIGXCPU || sig == SIGKILL) {
        ++hang_count();
        r.label("guard-cpu-limit");
        r.fail(vr::fmt("no termination: the call used more than %d s of CPU "
                       "time (normal cost: milliseconds) - endless loop",
                       cpu_budget));
      } else {
        r.label("guard-crash");
        r.fail(vr::fmt("the code under test crashed with signal %d (%s)", sig,
                       strsignal(sig)));
      }
      r.known = announced;
      return r;
    }
    if (!deser(buf, r)) {
      vr::VResult e;
      e.fail("harness: child returned no result (exit status " +
             std::to_string(WEXITSTATUS(status)) + ")");
      return e;
    }
    return r;
  };
  return [run, st](const vr::VCase &c) -> vr::VResult {
    // shrink budget: after the first failure at most 400 further candidates,
    // at most 8 of them non-terminating; beyond that candidates are not run
    // (reported as passing), which ends the shrinking at the best case so far
    if (st->fails > 400 || st->hangs > 8 || (st->fails > 0 && getenv("C16_NOSHRINK"))) {
      vr::VResult r;
      r.label("shrink-budget-exhausted");
      return r;
    }
    vr::VResult r = run(c);
    if (st->fails > 0)
      ++st->fails; // counts candidates after the first failure
    if (!r.ok && !r.known.empty() && vr::split_env("VERIF_KNOWN").count(r.known))
      return r; // excluded class: not a failure that gets shrunk
    if (!r.ok) {
      if (st->fails == 0)
        st->fails = 1;
      for (auto &l : r.labels)
        if (l == "guard-cpu-limit" || l == "guard-timeout")
          ++st->hangs;
    }
    return r;
  };
}

} // namespace c16

#endif
