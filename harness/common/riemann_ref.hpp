// Independent reference solution of the 1D Riemann problem for the Euler
// equations (ideal gas), written from Toro (2009) ch. 4 in long double:
// bracketing + bisection/secant on the monotone pressure function, closed-form
// sampling.  Shares no code with /repo/src/ExactRiemannSolver.hpp.
#ifndef RIEMANN_REF_HPP
#define RIEMANN_REF_HPP

#include <cmath>

namespace rref {
typedef long double LD;

struct State {
  LD rho, u, p;
};

enum Region {
  R_LEFT = 0,
  R_LFAN,
  R_LSTAR,
  R_RSTAR,
  R_RFAN,
  R_RIGHT,
  R_VACUUM
};

struct Solution {
  LD g;
  State L, R;
  bool vacL, vacR, vacgen; // vacuum left / right / generated
  LD aL, aR;
  LD pstar, ustar;
  bool shockL, shockR;
  // wave speeds (valid where applicable)
  LD SL;  // left shock speed
  LD SHL; // left fan head
  LD STL; // left fan tail (or vacuum front when vacuum on the right/generated)
  LD SR, SHR, STR;
  LD rhostarL, rhostarR;
};

inline LD fK(LD p, const State &K, LD aK, LD g) {
  if (p > K.p) {
    const LD A = 2.L / ((g + 1.L) * K.rho);
    const LD B = (g - 1.L) / (g + 1.L) * K.p;
    return (p - K.p) * sqrtl(A / (p + B));
  } else {
    return 2.L * aK / (g - 1.L) *
           (powl(p / K.p, (g - 1.L) / (2.L * g)) - 1.L);
  }
}

inline bool is_vac(LD rho, LD p) { return rho == 0.L || p == 0.L; }

inline Solution solve(LD g, State L, State R) {
  Solution s;
  s.g = g;
  s.L = L;
  s.R = R;
  s.vacL = is_vac(L.rho, L.p);
  s.vacR = is_vac(R.rho, R.p);
  s.aL = s.vacL ? 0.L : sqrtl(g * L.p / L.rho);
  s.aR = s.vacR ? 0.L : sqrtl(g * R.p / R.rho);
  s.vacgen = false;
  s.pstar = 0;
  s.ustar = 0;
  s.shockL = s.shockR = false;
  s.SL = s.SHL = s.STL = s.SR = s.SHR = s.STR = 0;
  s.rhostarL = s.rhostarR = 0;
  if (s.vacL || s.vacR) {
    s.SHL = L.u - s.aL;
    s.STL = L.u + 2.L * s.aL / (g - 1.L); // front
    s.SHR = R.u + s.aR;
    s.STR = R.u - 2.L * s.aR / (g - 1.L);
    return s;
  }
  const LD du = R.u - L.u;
  if (2.L * (s.aL + s.aR) / (g - 1.L) <= du) {
    s.vacgen = true;
    s.SHL = L.u - s.aL;
    s.STL = L.u + 2.L * s.aL / (g - 1.L);
    s.SHR = R.u + s.aR;
    s.STR = R.u - 2.L * s.aR / (g - 1.L);
    return s;
  }
  // bracket the root of f(p) = fL + fR + du (monotone increasing in p)
  LD lo = 0.L, hi = fmaxl(L.p, R.p);
  auto F = [&](LD p) { return fK(p, L, s.aL, g) + fK(p, R, s.aR, g) + du; };
  int guard = 0;
  while (F(hi) < 0.L && guard++ < 20000)
    hi *= 2.L;
  // f(0) = -2(aL+aR)/(g-1) + du < 0 (no vacuum generation).  Bisect in
  // t = ln p so that roots many hundred decades below pL, pR are resolved to
  // full relative precision.
  LD tlo = logl(1e-4930L), thi = logl(hi);
  if (F(expl(tlo)) >= 0.L) {
    lo = hi = 0.L; // root below the representable range
  } else {
    for (int it = 0; it < 300; ++it) {
      const LD mid = 0.5L * (tlo + thi);
      if (mid == tlo || mid == thi)
        break;
      if (F(expl(mid)) < 0.L)
        tlo = mid;
      else
        thi = mid;
    }
    lo = expl(tlo);
    hi = expl(thi);
  }
  s.pstar = 0.5L * (lo + hi);
  if (s.pstar < 1e-4000L) {
    // the star pressure underflows (nearly generated vacuum, gamma -> 1): the
    // star region is a vacuum for every representable purpose; the two fans
    // then overlap by an amount in which both densities are < 1e-4000
    s.pstar = 0;
    s.vacgen = true;
    s.SHL = L.u - s.aL;
    s.STL = L.u + 2.L * s.aL / (g - 1.L);
    s.SHR = R.u + s.aR;
    s.STR = R.u - 2.L * s.aR / (g - 1.L);
    return s;
  }
  s.ustar = 0.5L * (L.u + R.u) +
            0.5L * (fK(s.pstar, R, s.aR, g) - fK(s.pstar, L, s.aL, g));
  const LD gm = (g - 1.L) / (g + 1.L);
  s.shockL = s.pstar > L.p;
  s.shockR = s.pstar > R.p;
  if (s.shockL) {
    const LD q = s.pstar / L.p;
    s.SL = L.u - s.aL * sqrtl((g + 1.L) / (2.L * g) * q + (g - 1.L) / (2.L * g));
    s.rhostarL = L.rho * (q + gm) / (gm * q + 1.L);
  } else {
    s.SHL = L.u - s.aL;
    s.STL = s.ustar - s.aL * powl(s.pstar / L.p, (g - 1.L) / (2.L * g));
    s.rhostarL = L.rho * powl(s.pstar / L.p, 1.L / g);
  }
  if (s.shockR) {
    const LD q = s.pstar / R.p;
    s.SR = R.u + s.aR * sqrtl((g + 1.L) / (2.L * g) * q + (g - 1.L) / (2.L * g));
    s.rhostarR = R.rho * (q + gm) / (gm * q + 1.L);
  } else {
    s.SHR = R.u + s.aR;
    s.STR = s.ustar + s.aR * powl(s.pstar / R.p, (g - 1.L) / (2.L * g));
    s.rhostarR = R.rho * powl(s.pstar / R.p, 1.L / g);
  }
  return s;
}

inline State lfan(const Solution &s, LD xi) {
  const LD g = s.g;
  LD base =
      2.L / (g + 1.L) + (g - 1.L) / ((g + 1.L) * s.aL) * (s.L.u - xi);
  State o;
  if (base < 0.L)
    base = 0.L; // round-off at the vacuum front
  o.rho = s.L.rho * powl(base, 2.L / (g - 1.L));
  o.u = 2.L / (g + 1.L) * (s.aL + 0.5L * (g - 1.L) * s.L.u + xi);
  o.p = s.L.p * powl(base, 2.L * g / (g - 1.L));
  return o;
}
inline State rfan(const Solution &s, LD xi) {
  const LD g = s.g;
  LD base =
      2.L / (g + 1.L) - (g - 1.L) / ((g + 1.L) * s.aR) * (s.R.u - xi);
  State o;
  if (base < 0.L)
    base = 0.L; // round-off at the vacuum front
  o.rho = s.R.rho * powl(base, 2.L / (g - 1.L));
  o.u = 2.L / (g + 1.L) * (-s.aR + 0.5L * (g - 1.L) * s.R.u + xi);
  o.p = s.R.p * powl(base, 2.L * g / (g - 1.L));
  return o;
}

// sample the self-similar solution at speed xi = x/t
inline State sample(const Solution &s, LD xi, Region *reg = nullptr) {
  Region dummy;
  Region &r = reg ? *reg : dummy;
  const State vac = {0.L, 0.L, 0.L};
  if (s.vacL && s.vacR) {
    r = R_VACUUM;
    return vac;
  }
  if (s.vacR || (s.vacgen && xi <= s.STL)) {
    // left gas expanding into vacuum
    if (!s.vacR && !s.vacgen) {
    }
    if (xi <= s.SHL) {
      r = R_LEFT;
      return s.L;
    }
    if (xi < s.STL) {
      r = R_LFAN;
      return lfan(s, xi);
    }
    r = R_VACUUM;
    return vac;
  }
  if (s.vacL || (s.vacgen && xi >= s.STR)) {
    if (xi >= s.SHR) {
      r = R_RIGHT;
      return s.R;
    }
    if (xi > s.STR) {
      r = R_RFAN;
      return rfan(s, xi);
    }
    r = R_VACUUM;
    return vac;
  }
  if (s.vacgen) {
    r = R_VACUUM;
    return vac;
  }
  if (xi <= s.ustar) {
    if (s.shockL) {
      if (xi < s.SL) {
        r = R_LEFT;
        return s.L;
      }
      r = R_LSTAR;
      return State{s.rhostarL, s.ustar, s.pstar};
    }
    if (xi <= s.SHL) {
      r = R_LEFT;
      return s.L;
    }
    if (xi < s.STL) {
      r = R_LFAN;
      return lfan(s, xi);
    }
    r = R_LSTAR;
    return State{s.rhostarL, s.ustar, s.pstar};
  } else {
    if (s.shockR) {
      if (xi > s.SR) {
        r = R_RIGHT;
        return s.R;
      }
      r = R_RSTAR;
      return State{s.rhostarR, s.ustar, s.pstar};
    }
    if (xi >= s.SHR) {
      r = R_RIGHT;
      return s.R;
    }
    if (xi > s.STR) {
      r = R_RFAN;
      return rfan(s, xi);
    }
    r = R_RSTAR;
    return State{s.rhostarR, s.ustar, s.pstar};
  }
}

// distance (in speed) from xi to the nearest wave of the solution
inline LD wave_distance(const Solution &s, LD xi) {
  LD d = INFINITY;
  auto upd = [&](LD w) { d = fminl(d, fabsl(xi - w)); };
  if (s.vacL && s.vacR)
    return d;
  if (s.vacR || s.vacgen) {
    upd(s.SHL);
    upd(s.STL);
  }
  if (s.vacL || s.vacgen) {
    upd(s.SHR);
    upd(s.STR);
  }
  if (s.vacL || s.vacR || s.vacgen)
    return d;
  upd(s.ustar);
  if (s.shockL)
    upd(s.SL);
  else {
    upd(s.SHL);
    upd(s.STL);
  }
  if (s.shockR)
    upd(s.SR);
  else {
    upd(s.SHR);
    upd(s.STR);
  }
  return d;
}

} // namespace rref
#endif
