// Independent geometric reference for a straight line crossing a regular block
// of cells (property C02).  Nothing in here marches from cell to cell to
// produce expected values: every cell gets the parameter interval of the line
// inside its (inflated / deflated) box in closed form, and the sequence of
// visited cells comes from the sorted list of all plane-crossing parameters
// with the cell named by the midpoint of every segment.
//
// Long double throughout.  No dependence on /repo headers or on rapidcheck.
#ifndef GEOM_ORACLE_HPP
#define GEOM_ORACLE_HPP

#include <algorithm>
#include <cmath>
#include <limits>
#include <utility>
#include <vector>

namespace geo {

typedef long double LD;
static const double EPS = 0x1p-52;
static const LD INF = std::numeric_limits<LD>::infinity();

// ------------------------------------------------------------------ block
struct Block {
  int n[3];
  double anchor[3], side[3], cs[3];
  std::vector<double> wall[3]; // wall[i][k] = k * cs[i], k = 0..n[i]
  double L[3];                 // wall[i][n[i]]
  int ncell() const { return n[0] * n[1] * n[2]; }
  int one_index(int ix, int iy, int iz) const {
    return ix * n[1] * n[2] + iy * n[2] + iz;
  }
  double diag() const {
    return std::sqrt(L[0] * L[0] + L[1] * L[1] + L[2] * L[2]);
  }
};

inline Block make_block(const int n[3], const double anchor[3],
                        const double side[3]) {
  Block B;
  for (int i = 0; i < 3; ++i) {
    B.n[i] = n[i];
    B.anchor[i] = anchor[i];
    B.side[i] = side[i];
    // the cell size is *defined* as side / number of cells, and the walls as
    // integer multiples of it (this is the grid every other component sees)
    B.cs[i] = side[i] / n[i];
    B.wall[i].resize(n[i] + 1);
    for (int k = 0; k <= n[i]; ++k)
      B.wall[i][k] = (double)k * B.cs[i];
    B.L[i] = B.wall[i][n[i]];
  }
  return B;
}

// index k of the slab [wall[k], wall[k+1]) that contains x (clamped)
inline int locate(const Block &B, int i, LD x) {
  int k = (int)(std::upper_bound(B.wall[i].begin(), B.wall[i].end(), (double)x,
                                 [](double a, double b) { return a < b; }) -
                B.wall[i].begin()) -
          1;
  // upper_bound on the double value: refine with the long double
  while (k + 1 <= B.n[i] && (LD)B.wall[i][k + 1] <= x)
    ++k;
  while (k > 0 && (LD)B.wall[i][k] > x)
    --k;
  if (k < 0)
    k = 0;
  if (k > B.n[i] - 1)
    k = B.n[i] - 1;
  return k;
}

// is x exactly a wall of dimension i?  returns wall index or -1
inline int on_wall(const Block &B, int i, double x) {
  for (int k = 0; k <= B.n[i]; ++k)
    if (B.wall[i][k] == x)
      return k;
  return -1;
}

// ------------------------------------------------------------------ intervals
struct Interval {
  LD a, b;
  bool empty() const { return !(a <= b); }
  LD len() const { return empty() ? 0.L : b - a; }
};
inline Interval none() { return Interval{1.L, 0.L}; }
inline Interval all() { return Interval{-INF, INF}; }
inline Interval isect(const Interval &x, const Interval &y) {
  if (x.empty() || y.empty())
    return none();
  return Interval{std::max(x.a, y.a), std::min(x.b, y.b)};
}
// parameter interval in which x0 + t d lies in [lo, hi] (d != 0)
inline Interval slab_t(LD lo, LD hi, LD x0, LD d) {
  if (!(lo <= hi))
    return none();
  LD ta = (lo - x0) / d, tb = (hi - x0) / d;
  if (ta > tb)
    std::swap(ta, tb);
  return Interval{ta, tb};
}

// ------------------------------------------------------------------ the line
struct Line {
  double x0[3]; // start relative to the anchor (after snapping, if any)
  double d[3];  // unit direction as stored in the packet
  bool moving(int i) const { return d[i] != 0.; }
};

// exit parameter of the line through the block and per-dimension parameters
struct Exit {
  LD t[3];  // parameter at which the far block boundary of dim i is reached
  LD tend;  // min over moving dims
  int amin; // a dimension that attains it
};
inline Exit exit_of(const Block &B, const Line &ln) {
  Exit e;
  e.tend = INF;
  e.amin = -1;
  for (int i = 0; i < 3; ++i) {
    e.t[i] = INF;
    if (!ln.moving(i))
      continue;
    const LD W = ln.d[i] > 0. ? (LD)B.L[i] : 0.L;
    e.t[i] = (W - (LD)ln.x0[i]) / (LD)ln.d[i];
    if (e.t[i] < e.tend) {
      e.tend = e.t[i];
      e.amin = i;
    }
  }
  if (e.tend < 0.L)
    e.tend = 0.L;
  return e;
}

// ------------------------------------------------------------------ segments
// exact path: sorted plane crossings, cell by midpoint.  stat[i] is the slab
// index to use for a dimension in which the line does not move.
struct Segment {
  int idx[3];
  int cell;
  LD ta, tb;
};
inline std::vector<Segment> segments(const Block &B, const Line &ln,
                                     const int stat[3]) {
  const Exit ex = exit_of(B, ln);
  std::vector<LD> ts;
  ts.push_back(0.L);
  ts.push_back(ex.tend);
  for (int i = 0; i < 3; ++i) {
    if (!ln.moving(i))
      continue;
    for (int k = 0; k <= B.n[i]; ++k) {
      const LD t = ((LD)B.wall[i][k] - (LD)ln.x0[i]) / (LD)ln.d[i];
      if (t > 0.L && t < ex.tend)
        ts.push_back(t);
    }
  }
  std::sort(ts.begin(), ts.end());
  std::vector<Segment> out;
  for (size_t s = 0; s + 1 < ts.size(); ++s) {
    if (!(ts[s + 1] > ts[s]))
      continue;
    Segment g;
    g.ta = ts[s];
    g.tb = ts[s + 1];
    const LD tm = 0.5L * (g.ta + g.tb);
    for (int i = 0; i < 3; ++i)
      g.idx[i] = ln.moving(i)
                     ? locate(B, i, (LD)ln.x0[i] + tm * (LD)ln.d[i])
                     : stat[i];
    g.cell = B.one_index(g.idx[0], g.idx[1], g.idx[2]);
    // merge with the previous segment if the same cell (cannot happen for
    // a straight line, but harmless)
    if (!out.empty() && out.back().cell == g.cell && out.back().tb == g.ta)
      out.back().tb = g.tb;
    else
      out.push_back(g);
  }
  return out;
}

// ------------------------------------------------------------------ near cells
// every cell whose box, inflated by E[i] per dimension, is touched by the line
// at some parameter t >= -tback, with the parameter interval inside the
// inflated box (from -tback on) and inside the deflated box (from 0 on).
// tback > 0 covers a traversal that assigns a start point lying within
// rounding of a wall to the cell on the other side and therefore begins with a
// (tiny in space, E/|d| in parameter) step backwards.
struct Near {
  int idx[3];
  int cell;
  Interval infl, defl;
};
inline std::vector<Near> near_cells(const Block &B, const Line &ln,
                                    const int stat[3], const LD E[3],
                                    LD tback = 0.L) {
  std::vector<Interval> I[3], D[3];
  for (int i = 0; i < 3; ++i) {
    I[i].resize(B.n[i]);
    D[i].resize(B.n[i]);
    for (int k = 0; k < B.n[i]; ++k) {
      if (!ln.moving(i)) {
        I[i][k] = D[i][k] = (k == stat[i]) ? all() : none();
      } else {
        const LD lo = B.wall[i][k], hi = B.wall[i][k + 1];
        I[i][k] = slab_t(lo - E[i], hi + E[i], ln.x0[i], ln.d[i]);
        D[i][k] = slab_t(lo + E[i], hi - E[i], ln.x0[i], ln.d[i]);
      }
    }
  }
  const Interval pos{0.L, INF};
  const Interval posb{-tback, INF};
  std::vector<Near> out;
  for (int ix = 0; ix < B.n[0]; ++ix) {
    const Interval a = isect(I[0][ix], posb);
    if (a.empty())
      continue;
    for (int iy = 0; iy < B.n[1]; ++iy) {
      const Interval b = isect(a, I[1][iy]);
      if (b.empty())
        continue;
      for (int iz = 0; iz < B.n[2]; ++iz) {
        const Interval c = isect(b, I[2][iz]);
        if (c.empty())
          continue;
        Near nc;
        nc.idx[0] = ix;
        nc.idx[1] = iy;
        nc.idx[2] = iz;
        nc.cell = B.one_index(ix, iy, iz);
        nc.infl = c;
        nc.defl =
            isect(isect(isect(D[0][ix], D[1][iy]), D[2][iz]), pos);
        out.push_back(nc);
      }
    }
  }
  return out;
}

// ------------------------------------------------------------------ tau(t)
// piecewise linear non-decreasing function  f * sum_k kappa_k |I_k n [0,t]|.
// The slope is re-summed from the set of active intervals at every breakpoint
// (no running +kappa/-kappa cancellation: kappa spans 20+ decades).
struct TauFn {
  std::vector<Interval> iv;
  std::vector<LD> kap;
  LD factor = 1.L;
  void add(const Interval &I, LD kappa) {
    if (I.empty() || !(kappa > 0.L) || !(I.b > I.a))
      return;
    iv.push_back(I);
    kap.push_back(kappa);
  }
  LD at(LD t) const {
    LD tau = 0.L;
    for (size_t k = 0; k < iv.size(); ++k) {
      const LD hi = std::min(iv[k].b, t);
      if (hi > iv[k].a)
        tau += kap[k] * (hi - iv[k].a);
    }
    return tau * factor;
  }
  LD total() const { return at(INF); }
  // smallest t with tau(t) >= target (INF if never)
  LD first_passage(LD target) const {
    if (target <= 0.L)
      return 0.L;
    std::vector<std::pair<LD, int>> ev; // (t, +-(k+1))
    for (size_t k = 0; k < iv.size(); ++k) {
      ev.emplace_back(iv[k].a, (int)(k + 1));
      ev.emplace_back(iv[k].b, -(int)(k + 1));
    }
    std::sort(ev.begin(), ev.end());
    std::vector<int> active;
    LD tau = 0.L, tp = 0.L;
    if (!ev.empty() && ev.front().first < 0.L)
      tp = ev.front().first; // intervals may begin at a negative parameter
    for (auto &e : ev) {
      const LD dt = e.first - tp;
      if (dt > 0.L && !active.empty()) {
        LD slope = 0.L;
        for (int k : active)
          slope += kap[k];
        slope *= factor;
        const LD tn = (dt == INF) ? INF : tau + slope * dt;
        if (tn >= target) {
          LD t = tp + (target - tau) / slope;
          if (t > e.first)
            t = e.first;
          if (t < tp)
            t = tp;
          return t;
        }
        tau = tn;
      }
      if (e.first > tp)
        tp = e.first;
      if (e.second > 0)
        active.push_back(e.second - 1);
      else
        active.erase(std::find(active.begin(), active.end(), -e.second - 1));
    }
    return INF;
  }
};

} // namespace geo

#endif // GEOM_ORACLE_HPP
