// C19 - oracle for TimeLine, shared by the rapidcheck harness
// (harness/c19_timeline.cpp) and the libFuzzer target
// (harness/fuzz/c19_timeline.cpp).
//
// A case is (start, end, minimum step, maximum step, history of requested
// steps, finishing request, save point).  The history is driven through the
// real TimeLine; after every advance() the integer state is read back through
// TimeLine::write_restart_file (real RestartWriter, then the 5 fields are read
// with fread).  The oracle is
//   (1) the invariants the property states, evaluated on what came back, and
//   (2) an independent closed-form model of the step choice (frexp exponent
//       arithmetic + count-trailing-zeros instead of the halving loops).
// After the generated history the run is driven to the end of the time line
// with the finishing request, so every case checks "ends exactly on time".
#ifndef C19_TIMELINE_ORACLE_HPP
#define C19_TIMELINE_ORACLE_HPP

#include "RestartReader.hpp"
#include "RestartWriter.hpp"
#include "TimeLine.hpp"

#include <algorithm>
#include <cfloat>
#include <cstdarg>
#include <cstring>
#include <cmath>
#include <cstdint>
#include <cstdio>
#include <cstdlib>
#include <set>
#include <string>
#include <sys/stat.h>
#include <unistd.h>
#include <vector>

namespace tl19 {

const uint64_t TOP = 0x8000000000000000ull; // 2^63, size of the integer line

// ---------------------------------------------------------------- scratch
// unique file names in a per-process directory (re-using one name is ~40x
// slower on this file system because of the truncation)
class Scratch {
  std::string _dir;
  unsigned long _n;

public:
  Scratch() : _n(0) {
    const char *d = getenv("VERIF_TMP");
    _dir = std::string(d ? d : ".") + "/c19_" + std::to_string((long)getpid());
    mkdir(_dir.c_str(), 0700);
  }
  ~Scratch() { rmdir(_dir.c_str()); }
  std::string fresh() { return _dir + "/" + std::to_string(_n++) + ".rst"; }
};

struct Raw {
  uint64_t min, max;
  double A, B;
  uint64_t cur;
  bool operator==(const Raw &o) const {
    return min == o.min && max == o.max && cur == o.cur &&
           std::memcmp(&A, &o.A, 8) == 0 && std::memcmp(&B, &o.B, 8) == 0;
  }
};

// integer state of a time line, through its own restart dump.  Returns the
// number of bytes the dump had (40 = the five 8-byte fields).
inline long read_raw(const TimeLine &t, Raw &raw, Scratch &scr) {
  const std::string fn = scr.fresh();
  {
    RestartWriter w(fn);
    t.write_restart_file(w);
  }
  unsigned char buf[64];
  FILE *f = fopen(fn.c_str(), "rb");
  long n = -1;
  if (f) {
    n = (long)fread(buf, 1, sizeof buf, f);
    fclose(f);
  }
  unlink(fn.c_str());
  if (n == 40) {
    std::memcpy(&raw.min, buf, 8);
    std::memcpy(&raw.max, buf + 8, 8);
    std::memcpy(&raw.A, buf + 16, 8);
    std::memcpy(&raw.B, buf + 24, 8);
    std::memcpy(&raw.cur, buf + 32, 8);
  }
  return n;
}

inline TimeLine *save_and_restore(const TimeLine &t, Scratch &scr) {
  const std::string fn = scr.fresh();
  {
    RestartWriter w(fn);
    t.write_restart_file(w);
  }
  TimeLine *r;
  {
    RestartReader rd(fn);
    r = new TimeLine(rd);
  }
  unlink(fn.c_str());
  return r;
}

// ---------------------------------------------------------------- model
// largest integer k with T * 2^(k-63) <= x, for T > 0 finite (no loop: compare
// mantissas, subtract exponents).  x <= 0 -> very negative, x = inf -> large.
inline int exp_le(double T, double x) {
  if (!(x > 0.))
    return -100000;
  if (std::isinf(x))
    return 100000;
  int eT, ex;
  const double mT = std::frexp(T, &eT), mx = std::frexp(x, &ex);
  return 63 + ex - eT - (mT <= mx ? 0 : 1);
}
inline int clampi(int v, int lo, int hi) { return v < lo ? lo : v > hi ? hi : v; }
inline bool pow2(uint64_t v) { return v != 0 && (v & (v - 1)) == 0; }
inline int log2u(uint64_t v) { return 63 - __builtin_clzll(v); }
// exponent of the largest power of two that divides the time left
inline int div_exp(uint64_t cur) {
  const uint64_t left = TOP - cur;
  return __builtin_ctzll(left);
}

inline std::string sfmt(const char *f, ...) {
  char b[1024];
  va_list ap;
  va_start(ap, f);
  vsnprintf(b, sizeof b, f, ap);
  va_end(ap);
  return b;
}

struct Case {
  double start, end, minstep, maxstep;
  std::vector<double> reqs; // generated history of requested steps
  double fin;               // request repeated until the end is reached
  long save_at;             // save/restore before request #save_at (-1: none)
  bool every_step;          // read the integer state back after every call
};

struct Outcome {
  bool ok = true;
  std::string msg;
  std::set<std::string> labels;
  bool nontrivial = false;
  long steps = 0, stops = 0, fired = 0, ties = 0, readbacks = 0;
  std::set<int> sizes; // step exponents taken during the generated history
  void fail(const std::string &m) {
    if (ok) {
      ok = false;
      msg = m;
    }
  }
};

// bound on the number of calls a sound case can need (generators guarantee
// max step and finishing request >= interval / 256): history + 63 alignment
// steps + 256 + slack
const long STEP_CAP = 4000;

// k such that x == T * 2^(k-63) exactly, or -1000 if x is not such a value
inline int fraction_exponent(double T, double x) {
  if (!(x > 0.) || !std::isfinite(x))
    return -1000;
  int eT, ex;
  const double mT = std::frexp(T, &eT), mx = std::frexp(x, &ex);
  if (mT != mx)
    return -1000;
  return 63 + ex - eT;
}

// Reading the integer state costs a file round trip (10..500 us on this file
// system), so it is done after *every* call only in the cases that ask for it
// (every_step); otherwise at check points: construction, save point, every
// call that returns false (stop or end), the last generated request, every
// 16th call.  Between check points the integer step is taken from the
// reported physical step, which has to be interval * 2^(k-63) exactly; a
// hidden drift of the internal time shows at the next check point.
inline Outcome run_case(const Case &c, Scratch &scr) {
  Outcome o;
  const double T = c.end - c.start; // the interval exactly as the code forms it
  const bool zero_start = c.start == 0.;
  const double big = std::max(std::fabs(c.start), std::fabs(c.end));
  if (!(T > 0.) || !std::isfinite(T) || !std::isfinite(big)) {
    o.labels.insert("unsound-case-skipped");
    return o;
  }
  o.labels.insert(zero_start ? "start-0" : "start-general");
  o.labels.insert(c.minstep > 0. ? "min-set" : "min-none");
  o.labels.insert(c.maxstep > 0. ? "max-set" : "max-none");
  if (c.every_step)
    o.labels.insert("state-read-back-after-every-call");

  const int kmin = c.minstep > 0. ? clampi(exp_le(T, c.minstep), 0, 63) : 0;
  const int kmax =
      c.maxstep > 0. ? std::max(kmin, std::min(63, exp_le(T, c.maxstep))) : 63;
  if (c.minstep > 0. && c.minstep == std::ldexp(T, kmin - 63))
    o.labels.insert("min-exact-power-of-two");
  if (c.maxstep > 0. && c.maxstep == std::ldexp(T, kmax - 63))
    o.labels.insert("max-exact-power-of-two");
  if (kmin == kmax)
    o.labels.insert("min==max");

  TimeLine tl(c.start, c.end, c.minstep, c.maxstep);
  TimeLine *restored = nullptr;
  struct Guard {
    TimeLine *&p;
    ~Guard() { delete p; }
  } guard{restored};

  Raw raw;
  long nb = read_raw(tl, raw, scr);
  ++o.readbacks;
  if (nb != 40) {
    o.fail(sfmt("restart dump of the time line has %ld bytes; minimum, maximum, "
                "two conversion factors and the current time need 40",
                nb));
    return o;
  }
  // construction
  if (raw.cur != 0)
    o.fail(sfmt("new time line starts at integer time %llu",
                (unsigned long long)raw.cur));
  if (raw.A != std::ldexp(T, -63) || raw.B != c.start)
    o.fail(sfmt("conversion factors %a, %a; expected interval/2^63 = %a and "
                "start = %a",
                raw.A, raw.B, std::ldexp(T, -63), c.start));
  if (!pow2(raw.min) || !pow2(raw.max) || raw.min > raw.max || raw.max > TOP)
    o.fail(sfmt("integer minimum %llu / maximum %llu are not ordered powers of "
                "two <= 2^63",
                (unsigned long long)raw.min, (unsigned long long)raw.max));
  else {
    if (log2u(raw.min) != kmin)
      o.fail(sfmt("integer minimum step 2^%d; the largest power-of-two "
                  "fraction of the interval not above the configured minimum "
                  "%a is 2^%d",
                  log2u(raw.min), c.minstep, kmin));
    if (log2u(raw.max) != kmax)
      o.fail(sfmt("integer maximum step 2^%d; the largest power-of-two "
                  "fraction of the interval not above the configured maximum "
                  "%a (and not below the minimum) is 2^%d",
                  log2u(raw.max), c.maxstep, kmax));
  }
  if (!o.ok)
    return o;
  const Raw raw0 = raw;
  const double min_phys = std::ldexp(T, log2u(raw0.min) - 63);

  uint64_t cur = 0;          // integer time (reported steps, checked against
                             // the read-back at every check point)
  unsigned __int128 sum = 0; // sum of the integer steps taken
  double prev_ct = c.start;  // physical time after the previous step
  bool ended = false;
  const long nreq = (long)c.reqs.size();
  bool stop_seen_in_history = false;

  // exact physical position of an integer time (long double: the 64-bit
  // mantissa holds the integer exactly)
  auto phys = [&](uint64_t t) -> long double {
    return (long double)c.start +
           (long double)T * ((long double)t / 9223372036854775808.0L);
  };
  const long double tol_pos =
      zero_start ? 0.0L : (long double)std::ldexp(big, -51);

  // read the state of the original (and of the restored copy) and compare
  // with the integer time `expect`
  auto checkpoint = [&](uint64_t expect, long i, bool any = false) -> bool {
    nb = read_raw(tl, raw, scr);
    ++o.readbacks;
    if (nb != 40) {
      o.fail(sfmt("restart dump has %ld bytes after request %ld", nb, i));
      return false;
    }
    if (raw.min != raw0.min || raw.max != raw0.max ||
        std::memcmp(&raw.A, &raw0.A, 8) || std::memcmp(&raw.B, &raw0.B, 8)) {
      o.fail(sfmt("request %ld changed the configuration of the time line", i));
      return false;
    }
    if (!any && raw.cur != expect) {
      o.fail(sfmt("after request %ld the time line stands at integer time "
                  "%llu; the steps it reported add up to %llu",
                  i, (unsigned long long)raw.cur, (unsigned long long)expect));
      return false;
    }
    if (restored) {
      Raw rr;
      const long nb2 = read_raw(*restored, rr, scr);
      ++o.readbacks;
      if (nb2 != 40 || !(rr == raw)) {
        o.fail(sfmt("state of the restored time line after request %ld: "
                    "current %llu, min %llu, max %llu, factors %a,%a; original "
                    "%llu, %llu, %llu, %a,%a",
                    i, (unsigned long long)rr.cur, (unsigned long long)rr.min,
                    (unsigned long long)rr.max, rr.A, rr.B,
                    (unsigned long long)raw.cur, (unsigned long long)raw.min,
                    (unsigned long long)raw.max, raw.A, raw.B));
        return false;
      }
    }
    return true;
  };

  for (long i = 0; !ended; ++i) {
    if (i >= STEP_CAP) {
      // cannot happen for generated cases (see STEP_CAP); never a verdict
      o.labels.insert("step-cap-reached");
      o.nontrivial = false;
      return o;
    }
    const bool in_history = i < nreq;
    const double q = in_history ? c.reqs[i] : c.fin;
    if (i == c.save_at && restored == nullptr) {
      restored = save_and_restore(tl, scr);
      if (!checkpoint(cur, i - 1))
        return o;
      o.labels.insert(cur == 0 ? "saved-before-first-step"
                               : (in_history ? "saved-mid-history"
                                             : "saved-before-finishing"));
    }

    double actual = -1., ct = -1.;
    const bool ret = tl.advance(q, actual, ct);
    ++o.steps;
    if (restored) {
      double a2 = -1., ct2 = -1.;
      const bool ret2 = restored->advance(q, a2, ct2);
      if (ret2 != ret || std::memcmp(&a2, &actual, 8) ||
          std::memcmp(&ct2, &ct, 8)) {
        o.fail(sfmt("restored time line diverges at request %ld (%a): returns "
                    "%d, step %a, time %a; original %d, %a, %a",
                    i, q, (int)ret2, a2, ct2, (int)ret, actual, ct));
        return o;
      }
    }

    // ---- model of this request
    const int kreq = std::min(kmax, exp_le(T, q)); // rounded request
    const int kdiv = div_exp(cur);
    const int kexp = std::min(kreq, kdiv);
    const bool expect_stop = kreq < 0 || kexp < kmin;
    if (kreq >= 0 && kreq <= kmax && q == std::ldexp(T, kreq - 63)) {
      ++o.ties;
      o.labels.insert("request-exactly-a-power-of-two-fraction");
    }

    // ---- what happened: integer time after the call
    uint64_t newcur = cur;
    if (ret) {
      // true is only returned after a step: its size is the reported one
      const int k = fraction_exponent(T, actual);
      if (k < 0 || k > 63) {
        o.fail(sfmt("request %ld (%a): reported step %a is not interval * "
                    "2^(k-63) with 0 <= k <= 63 (interval %a)",
                    i, q, actual, T));
        return o;
      }
      const uint64_t st = 1ull << k;
      if (st > TOP - cur) {
        o.fail(sfmt("request %ld (%a): step 2^%d from integer time %llu goes "
                    "past the end 2^63",
                    i, q, k, (unsigned long long)cur));
        return o;
      }
      newcur = cur + st;
      const bool cp = c.every_step || i == nreq - 1 || (i % 16) == 15;
      if (cp && !checkpoint(newcur, i))
        return o;
    } else {
      // stop or end: ask the time line where it stands
      if (!checkpoint(0, i, true))
        return o;
      newcur = raw.cur;
    }

    const bool advanced = newcur != cur;
    if (!advanced) {
      // ---- the call reported "stop" without advancing
      ++o.stops;
      if (in_history)
        stop_seen_in_history = true;
      // the property allows a stop only for a request below the minimum
      // (integer minimum = configured minimum rounded down to the grid)
      if (q >= min_phys) {
        o.fail(sfmt("request %ld (%a) is not below the minimum step %a (2^%d) "
                    "but the run was stopped at integer time %llu",
                    i, q, min_phys, log2u(raw0.min), (unsigned long long)cur));
        return o;
      }
      if (!expect_stop) { // unreachable if the line above holds; kept as a
                          // cross-check of the model itself
        o.fail(sfmt("request %ld (%a): stop, model expects a step of 2^%d", i,
                    q, kexp));
        return o;
      }
      o.labels.insert(kreq < 0 ? "stop-below-absolute-limit"
                               : "stop-below-minimum");
      const double exp_actual = kexp < 0 ? 0. : std::ldexp(T, kexp - 63);
      if (actual != exp_actual) {
        o.fail(sfmt("request %ld (%a) stopped the run and reported a step of "
                    "%a; the rounded request is %a",
                    i, q, actual, exp_actual));
        return o;
      }
      if (!(std::fabs((long double)ct - phys(cur)) <=
            tol_pos + std::fabs(phys(cur)) * 0x1p-51L)) {
        o.fail(sfmt("request %ld stopped the run and reported time %a; the "
                    "time line stands at %La",
                    i, ct, phys(cur)));
        return o;
      }
      continue;
    }

    // ---- a step was taken
    if (newcur < cur) {
      o.fail(sfmt("request %ld (%a): integer time went from %llu to %llu", i,
                  q, (unsigned long long)cur, (unsigned long long)newcur));
      return o;
    }
    const uint64_t step = newcur - cur;
    const uint64_t left = TOP - cur;
    if (newcur > TOP) {
      o.fail(sfmt("request %ld (%a): integer time %llu is past the end 2^63 "
                  "(was %llu, step %llu)",
                  i, q, (unsigned long long)newcur, (unsigned long long)cur,
                  (unsigned long long)step));
      return o;
    }
    if (!pow2(step)) {
      o.fail(sfmt("request %ld (%a): integer step %llu is not a power of two",
                  i, q, (unsigned long long)step));
      return o;
    }
    const int ks = log2u(step);
    if (left % step != 0) {
      o.fail(sfmt("request %ld (%a): step 2^%d does not divide the remaining "
                  "integer time %llu (repeating it overshoots the end)",
                  i, q, ks, (unsigned long long)left));
      return o;
    }
    if (step < raw0.min || step > raw0.max) {
      o.fail(sfmt("request %ld (%a): step 2^%d outside [minimum 2^%d, maximum "
                  "2^%d]",
                  i, q, ks, log2u(raw0.min), log2u(raw0.max)));
      return o;
    }
    if (actual != std::ldexp(T, ks - 63)) {
      o.fail(sfmt("request %ld (%a): reported step %a is not the integer step "
                  "2^%d times interval/2^63 = %a",
                  i, q, actual, ks, std::ldexp(T, ks - 63)));
      return o;
    }
    if (!(actual <= q)) {
      o.fail(sfmt("request %ld: actual step %a larger than requested %a", i,
                  actual, q));
      return o;
    }
    if (c.maxstep > 0. && !(actual <= c.maxstep)) {
      o.fail(sfmt("request %ld (%a): actual step %a larger than the configured "
                  "maximum %a",
                  i, q, actual, c.maxstep));
      return o;
    }
    if (ret != (newcur < TOP)) {
      o.fail(sfmt("request %ld (%a): advance() returned %d at integer time "
                  "%llu (end = 2^63)",
                  i, q, (int)ret, (unsigned long long)newcur));
      return o;
    }
    if (expect_stop) {
      o.fail(sfmt("request %ld (%a) rounds to 2^%d, below the minimum step "
                  "2^%d, but a step of 2^%d was taken instead of stopping",
                  i, q, kexp, kmin, ks));
      return o;
    }
    if (ks != kexp) {
      o.fail(sfmt("request %ld (%a) at integer time %llu: step 2^%d taken; "
                  "the closest smaller step that fits is 2^%d (request rounds "
                  "to 2^%d, remaining time divisible by 2^%d)",
                  i, q, (unsigned long long)cur, ks, kexp, kreq, kdiv));
      return o;
    }
    if (q < c.minstep)
      o.labels.insert("request-below-configured-minimum-accepted");
    // physical time
    const long double P = phys(newcur);
    if (!(std::fabs((long double)ct - P) <= tol_pos + std::fabs(P) * 0x1p-51L)) {
      o.fail(sfmt("request %ld: reported time %a, integer time %llu is %La", i,
                  ct, (unsigned long long)newcur, P));
      return o;
    }
    // general start: interval = fl(end - start) (2u*big), conversion and
    // product (4u*big) and the final sum (u*big) round, u = 2^-53: 7u*big
    if (zero_start ? !(ct <= c.end)
                   : !((long double)ct <=
                       (long double)c.end + (long double)std::ldexp(big, -50))) {
      o.fail(sfmt("request %ld: reported time %a exceeds the end time %a", i,
                  ct, c.end));
      return o;
    }
    if (!(ct >= prev_ct)) {
      o.fail(sfmt("request %ld: reported time went back from %a to %a", i,
                  prev_ct, ct));
      return o;
    }
    // strictly increasing wherever double precision can resolve the step
    // (integer time is a multiple of the step: >= 2^13 leaves 3 spare bits)
    const bool resolvable =
        zero_start ? ks >= 13 : actual >= std::ldexp(big, -49);
    if (resolvable) {
      if (!(ct > prev_ct)) {
        o.fail(sfmt("request %ld: time did not increase (%a) although a step "
                    "of %a was taken",
                    i, ct, actual));
        return o;
      }
    } else
      o.labels.insert("step-below-double-resolution");
    prev_ct = ct;
    sum += step;
    cur = newcur;
    if (in_history) {
      o.sizes.insert(ks);
      if (kexp < kreq)
        ++o.fired;
    }
    if (kexp < kreq)
      o.labels.insert("divisibility-reduced-the-step");
    if (kreq == kmax && exp_le(T, q) > kmax)
      o.labels.insert("limited-by-maximum");

    if (cur == TOP) {
      ended = true;
      if (zero_start) {
        if (ct != c.end) {
          o.fail(sfmt("final time %a is not the end time %a", ct, c.end));
          return o;
        }
      } else if (!(std::fabs((long double)ct - (long double)c.end) <=
                   (long double)std::ldexp(big, -51))) {
        o.fail(sfmt("final time %a differs from the end time %a by more than 2 "
                    "ulp of the larger of |start|, |end|",
                    ct, c.end));
        return o;
      } else if (ct != c.end)
        o.labels.insert("general-start-end-off-by-rounding");
      if (sum != (unsigned __int128)TOP) {
        o.fail("the integer steps do not sum to 2^63");
        return o;
      }
    }
  }
  if (stop_seen_in_history)
    o.labels.insert("history-contains-a-stop");
  if (restored)
    o.labels.insert("with-save-restore");
  o.labels.insert(o.steps <= 64 ? "calls<=64"
                                : o.steps <= 256 ? "calls-65..256" : "calls>256");
  o.labels.insert(o.sizes.size() >= 3 ? "3+-step-sizes" : "<3-step-sizes");
  o.nontrivial = o.sizes.size() >= 3 && o.fired >= 1;
  return o;
}

} // namespace tl19

#endif
