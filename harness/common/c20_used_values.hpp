// C20 (a2) - typed getters -> used-values dump -> ParameterFile again.
#ifndef C20_USED_VALUES_HPP
#define C20_USED_VALUES_HPP

#include "ParameterFile.hpp"
#include "c20_oracle.hpp"
#include "c20_units_checks.hpp"
#include "verif_rc.hpp"

#include <fstream>
#include <unistd.h>

namespace c20h {

inline std::string tmp_name(const std::string &stem) {
  const char *d = getenv("VERIF_TMP");
  return std::string(d ? d : ".") + "/c20_" + std::to_string((long)getpid()) +
         "_" + stem;
}

enum EntryType {
  T_INT = 0,
  T_UINT,
  T_ULONG,
  T_UCHAR,
  T_LONG,
  T_DOUBLE,
  T_BOOL,
  T_STRING,
  T_FILENAME,
  T_VEC_DOUBLE,
  T_VEC_INT,
  T_VEC_ULONG,
  T_VEC_BOOL,
  T_PHYS,
  T_PHYS_VEC,
  T_NUMBER
};

// one queried parameter
struct Entry {
  int type = 0;
  bool present = true; // in the file; otherwise the default is used
  int quantity = 0;
  std::string key;  // full key "Group:sub:name"
  std::string text; // value text in the file, or the textual default of a
                    // physical parameter
  int64_t iv[3] = {0, 0, 0};
  double dv[3] = {0, 0, 0};
  std::string unit; // unit text of a physical value
};

// what a typed query returned
struct Got {
  int64_t iv[3] = {0, 0, 0};
  double dv[3] = {0, 0, 0};
  std::string sv;
};

inline double to_SI_exact(int q, double v, const std::string &u) {
  return c20::to_SI_q(q, v, u);
}

template <Quantity Q> struct PhysGet {
  static double scalar(ParameterFile &p, const Entry &e, bool with_default) {
    return with_default ? p.get_physical_value<Q>(e.key, e.text)
                        : p.get_physical_value<Q>(e.key);
  }
  static CoordinateVector<> vec(ParameterFile &p, const Entry &e,
                                bool with_default) {
    return with_default ? p.get_physical_vector<Q>(e.key, e.text)
                        : p.get_physical_vector<Q>(e.key);
  }
};

inline double phys_scalar(ParameterFile &p, const Entry &e, bool wd) {
  switch (e.quantity) {
#define X(Q)                                                                   \
  case Q:                                                                      \
    return PhysGet<Q>::scalar(p, e, wd);
    C20_FOR_ALL_QUANTITIES(X)
#undef X
  }
  throw VerifAbort{__FILE__, __LINE__, "bad quantity"};
}
inline CoordinateVector<> phys_vec(ParameterFile &p, const Entry &e, bool wd) {
  switch (e.quantity) {
#define X(Q)                                                                   \
  case Q:                                                                      \
    return PhysGet<Q>::vec(p, e, wd);
    C20_FOR_ALL_QUANTITIES(X)
#undef X
  }
  throw VerifAbort{__FILE__, __LINE__, "bad quantity"};
}

// query one entry through the typed interface.  with_default: pass the
// default (the way callers do for optional parameters)
inline Got query(ParameterFile &p, const Entry &e, bool with_default) {
  Got g;
  switch (e.type) {
  case T_INT:
    g.iv[0] = with_default ? p.get_value<int>(e.key, (int)e.iv[0])
                           : p.get_value<int>(e.key);
    break;
  case T_UINT:
    g.iv[0] = with_default
                  ? p.get_value<unsigned int>(e.key, (unsigned int)e.iv[0])
                  : p.get_value<unsigned int>(e.key);
    break;
  case T_ULONG:
    g.iv[0] = with_default
                  ? p.get_value<uint_fast32_t>(e.key, (uint_fast32_t)e.iv[0])
                  : p.get_value<uint_fast32_t>(e.key);
    break;
  case T_UCHAR:
    g.iv[0] = with_default
                  ? p.get_value<uint_fast8_t>(e.key, (uint_fast8_t)e.iv[0])
                  : p.get_value<uint_fast8_t>(e.key);
    break;
  case T_LONG:
    g.iv[0] = with_default ? p.get_value<long int>(e.key, (long int)e.iv[0])
                           : p.get_value<long int>(e.key);
    break;
  case T_DOUBLE:
    g.dv[0] = with_default ? p.get_value<double>(e.key, e.dv[0])
                           : p.get_value<double>(e.key);
    break;
  case T_BOOL:
    g.iv[0] = with_default ? p.get_value<bool>(e.key, e.iv[0] != 0)
                           : p.get_value<bool>(e.key);
    break;
  case T_STRING:
    g.sv = with_default ? p.get_value<std::string>(e.key, e.text)
                        : p.get_value<std::string>(e.key);
    break;
  case T_FILENAME:
    g.sv = with_default ? p.get_filename(e.key, e.text) : p.get_filename(e.key);
    break;
  case T_VEC_DOUBLE: {
    const CoordinateVector<> v =
        with_default
            ? p.get_value<CoordinateVector<>>(
                  e.key, CoordinateVector<>(e.dv[0], e.dv[1], e.dv[2]))
            : p.get_value<CoordinateVector<>>(e.key);
    for (int i = 0; i < 3; ++i)
      g.dv[i] = v[i];
    break;
  }
  case T_VEC_INT: {
    const CoordinateVector<int_fast32_t> v =
        with_default ? p.get_value<CoordinateVector<int_fast32_t>>(
                           e.key, CoordinateVector<int_fast32_t>(
                                      e.iv[0], e.iv[1], e.iv[2]))
                     : p.get_value<CoordinateVector<int_fast32_t>>(e.key);
    for (int i = 0; i < 3; ++i)
      g.iv[i] = v[i];
    break;
  }
  case T_VEC_ULONG: {
    const CoordinateVector<uint_fast32_t> v =
        with_default ? p.get_value<CoordinateVector<uint_fast32_t>>(
                           e.key, CoordinateVector<uint_fast32_t>(
                                      e.iv[0], e.iv[1], e.iv[2]))
                     : p.get_value<CoordinateVector<uint_fast32_t>>(e.key);
    for (int i = 0; i < 3; ++i)
      g.iv[i] = v[i];
    break;
  }
  case T_VEC_BOOL: {
    const CoordinateVector<bool> v =
        with_default ? p.get_value<CoordinateVector<bool>>(
                           e.key, CoordinateVector<bool>(e.iv[0] != 0,
                                                         e.iv[1] != 0,
                                                         e.iv[2] != 0))
                     : p.get_value<CoordinateVector<bool>>(e.key);
    for (int i = 0; i < 3; ++i)
      g.iv[i] = v[i];
    break;
  }
  case T_PHYS:
    g.dv[0] = phys_scalar(p, e, with_default);
    break;
  case T_PHYS_VEC: {
    const CoordinateVector<> v = phys_vec(p, e, with_default);
    for (int i = 0; i < 3; ++i)
      g.dv[i] = v[i];
    break;
  }
  }
  return g;
}

// ------------------------------------------------------------------ generator
inline std::string render_double(double &v) {
  // several spellings of a floating point number; v becomes what strtod reads
  std::string t;
  switch (vr::weighted({3, 2, 2, 1, 1})) {
  case 0:
    t = vr::fmt("%g", v);
    break;
  case 1:
    t = vr::fmt("%.17g", v);
    break;
  case 2:
    t = vr::fmt("%.3e", v);
    break;
  case 3:
    t = vr::fmt("%.10g", v);
    if (t.find_first_of(".en") == std::string::npos)
      t += "."; // "10."
    break;
  default:
    t = vr::fmt("%.8E", v);
  }
  v = strtod(t.c_str(), nullptr);
  return t;
}
inline double gen_double() {
  switch (vr::weighted({3, 2, 2, 1, 1})) {
  case 0:
    return vr::logu(1e-25, 1e25);
  case 1:
    return (double)vr::irange(-1000, 1000);
  case 2:
    return -vr::logu(1e-8, 1e8);
  case 3: { // six significant digits, five, seven: around the print precision
    const double m = (double)vr::irange(100000, 9999999);
    return m * std::pow(10., (double)vr::irange(-20, 20));
  }
  default:
    return vr::coin(0.5) ? 0. : 0.999999999;
  }
}
inline std::string render_int(int64_t v, bool allow_hex) {
  if (allow_hex && v >= 0 && v < 0x10000000 && vr::coin(0.1))
    return vr::fmt("0x%llX", (long long)v);
  if (v != 0 && v % 1000 == 0 && vr::coin(0.5)) {
    int e = 0;
    int64_t m = v;
    while (m % 10 == 0) {
      m /= 10;
      ++e;
    }
    return vr::fmt("%llde%d", (long long)m, e);
  }
  return std::to_string(v);
}
inline std::string render_bool(bool b) {
  static const std::vector<std::string> t = {"true", "yes", "on", "y",
                                             "True", "YES", "On", "Y"};
  static const std::vector<std::string> f = {"false", "no",  "off", "n",
                                             "False", "NO",  "oFf", "N"};
  return b ? vr::pick(t) : vr::pick(f);
}

inline std::string entry_pack(const Entry &e) {
  return vr::fmt("%d|%d|%d|", e.type, (int)e.present, e.quantity) + e.key +
         "|" + e.unit + "|" + e.text;
}
inline Entry entry_unpack(const std::string &s) {
  Entry e;
  size_t p[5], pos = 0;
  for (int i = 0; i < 5; ++i) {
    p[i] = s.find('|', pos);
    pos = p[i] + 1;
  }
  e.type = atoi(s.substr(0, p[0]).c_str());
  e.present = atoi(s.substr(p[0] + 1, p[1] - p[0] - 1).c_str()) != 0;
  e.quantity = atoi(s.substr(p[1] + 1, p[2] - p[1] - 1).c_str());
  e.key = s.substr(p[2] + 1, p[3] - p[2] - 1);
  e.unit = s.substr(p[3] + 1, p[4] - p[3] - 1);
  e.text = s.substr(p[4] + 1);
  return e;
}

inline VCase gen_used() {
  VCase c;
  static const std::vector<std::string> groups = {
      "SimulationBox", "DensityGrid", "DensityFunction", "A", "A b",
      "PhotonSourceDistribution", "hydro", "Z"};
  static const std::vector<std::string> subs = {"inner", "x", "source 0",
                                                "TimeLine"};
  static const std::vector<std::string> names = {
      "anchor", "sides", "number of cells", "value", "type", "temperature",
      "k", "k2", "luminosity", "flag", "name", "radius", "a", "b"};
  const int n = (int)vr::irange(1, 14);
  std::set<std::string> usedkeys;
  std::vector<int64_t> ivals;
  std::vector<double> dvals;
  int count = 0;
  for (int i = 0; i < n; ++i) {
    Entry e;
    // key with nesting 0..3
    const int depth = vr::weighted({1, 4, 2, 1});
    std::string key;
    if (depth >= 1)
      key += vr::pick(groups) + ":";
    if (depth >= 2)
      key += vr::pick(subs) + ":";
    if (depth >= 3)
      key += vr::pick(subs) + ":";
    key += vr::pick(names);
    if (usedkeys.count(key))
      key += vr::fmt(" %d", i);
    // a key may not also be a group (it would be a different dictionary entry,
    // fine) - allowed; but exact duplicates are not
    usedkeys.insert(key);
    e.key = key;
    e.present = vr::coin(0.65);
    e.type = (int)vr::irange(0, T_NUMBER - 1);
    switch (e.type) {
    case T_INT:
    case T_LONG:
      e.iv[0] = vr::coin(0.3) ? vr::irange(-1000000, -1)
                              : vr::irange(0, 2000000) * (vr::coin(0.3) ? 1000 : 1);
      if (e.type == T_INT && std::llabs(e.iv[0]) > 2000000000ll)
        e.iv[0] %= 2000000000ll;
      e.text = render_int(e.iv[0], e.iv[0] >= 0);
      break;
    case T_UINT:
    case T_ULONG:
      e.iv[0] = vr::irange(0, 4000000) * (vr::coin(0.3) ? 1000 : 1);
      if (e.type == T_UINT && e.iv[0] > 4000000000ll)
        e.iv[0] %= 4000000000ll;
      e.text = render_int(e.iv[0], true);
      break;
    case T_UCHAR:
      e.iv[0] = vr::irange(0, 255);
      e.text = render_int(e.iv[0], true);
      break;
    case T_DOUBLE:
      e.dv[0] = gen_double();
      e.text = render_double(e.dv[0]);
      break;
    case T_BOOL:
      e.iv[0] = vr::coin(0.5);
      e.text = render_bool(e.iv[0] != 0);
      break;
    case T_STRING: {
      static const std::vector<std::string> s = {
          "Cartesian", "TaskBased", "a string with blanks", "12:30",
          "x: y",      "[not, a, vector]", "1e400", "-", "."};
      e.text = vr::pick(s);
      break;
    }
    case T_FILENAME: {
      static const std::vector<std::string> s = {
          "/path/to/snapshot_000.hdf5", "relative/file.txt", "C:\\x\\y.dat",
          "file with blank.hdf5"};
      e.text = vr::pick(s);
      break;
    }
    case T_VEC_DOUBLE: {
      std::string t = "[";
      for (int k = 0; k < 3; ++k) {
        e.dv[k] = gen_double();
        t += render_double(e.dv[k]);
        if (k < 2)
          t += vr::coin(0.7) ? ", " : ",";
      }
      e.text = t + "]";
      break;
    }
    case T_VEC_INT:
    case T_VEC_ULONG: {
      std::string t = "[";
      for (int k = 0; k < 3; ++k) {
        e.iv[k] = (e.type == T_VEC_INT && vr::coin(0.3))
                      ? vr::irange(-5000, -1)
                      : vr::irange(0, 100000);
        t += render_int(e.iv[k], e.iv[k] >= 0);
        if (k < 2)
          t += vr::coin(0.7) ? ", " : ",";
      }
      e.text = t + "]";
      break;
    }
    case T_VEC_BOOL: {
      std::string t = "[";
      for (int k = 0; k < 3; ++k) {
        e.iv[k] = vr::coin(0.5);
        t += render_bool(e.iv[k] != 0);
        if (k < 2)
          t += vr::coin(0.7) ? ", " : ",";
      }
      e.text = t + "]";
      break;
    }
    case T_PHYS:
    case T_PHYS_VEC: {
      e.quantity = (int)vr::irange(0, NUMBER_OF_QUANTITIES - 1);
      const c20::QDim d = c20::quantity_dim(e.quantity);
      // a unit whose SI factor keeps the result far from the double limits
      std::vector<c20::Factor> fs;
      std::vector<int> st;
      for (int attempt = 0;; ++attempt) {
        fs = gen_unit_for(d);
        const c20::UnitRef ref = c20::unit_reference(fs);
        if (attempt > 20) {
          fs.clear();
          break;
        }
        if (ref.in_range && fabsl(ref.value) < 1e150L &&
            fabsl(ref.value) > 1e-150L)
          break;
      }
      if (fs.empty())
        e.unit = UnitConverter::get_SI_unit_name(e.quantity);
      else {
        for (size_t k = 0; k < fs.size(); ++k)
          st.push_back(gen_style() & ~16 & ~1);
        e.unit = c20::render_unit(fs, st);
      }
      // photon energies / wavelengths given where a frequency is expected
      const bool cross = e.quantity == QUANTITY_FREQUENCY && vr::coin(0.4);
      if (cross) {
        static const std::vector<std::string> alt = {"eV", "erg", "angstrom",
                                                     "cm", "J"};
        e.unit = vr::pick(alt);
      }
      const int nc = e.type == T_PHYS ? 1 : 3;
      std::string t = nc == 3 ? "[" : "";
      for (int k = 0; k < nc; ++k) {
        e.dv[k] = cross ? vr::logu(1e-3, 1e6) : gen_double();
        t += render_double(e.dv[k]) + (vr::coin(0.85) ? " " : "  ") + e.unit;
        if (k < nc - 1)
          t += vr::coin(0.7) ? ", " : ",";
      }
      e.text = t + (nc == 3 ? "]" : "");
      break;
    }
    }
    c.S(vr::fmt("e%02d", count), entry_pack(e));
    for (int k = 0; k < 3; ++k) {
      ivals.push_back(e.iv[k]);
      dvals.push_back(e.dv[k]);
    }
    ++count;
  }
  c.I("n", count);
  c.I("iv", ivals);
  c.D("dv", dvals);
  c.I("ask_twice", vr::coin(0.2));
  return c;
}

// render the present entries as a parameter file (sorted keys, straightforward
// two-blank indentation; the free-form layouts are the business of
// yaml_roundtrip)
inline std::string render_param_file(const std::vector<Entry> &es) {
  std::map<std::string, std::string> m;
  for (auto &e : es)
    if (e.present)
      m[e.key] = e.text;
  std::string out;
  std::vector<std::string> open;
  for (auto &kv : m) {
    std::vector<std::string> g = c20::groups_of(kv.first);
    size_t i = 0;
    while (i < g.size() && i < open.size() && g[i] == open[i])
      ++i;
    open.resize(i);
    for (size_t j = i; j < g.size(); ++j) {
      out += std::string(2 * j, ' ') + g[j] + ":\n";
      open.push_back(g[j]);
    }
    const std::string name = kv.first.substr(kv.first.rfind(':') + 1);
    out += std::string(2 * g.size(), ' ') +
           (kv.first.find(':') == std::string::npos ? kv.first : name) + ": " +
           kv.second + "\n";
  }
  return out;
}

inline bool printed_close(double a, double b) {
  // equal to the printed precision: 6 significant digits, i.e. half a unit of
  // the sixth digit = 5e-6 relative (plus rounding slack)
  if (a == b)
    return true;
  return std::abs(a - b) <= 5.0001e-6 * std::max(std::abs(a), std::abs(b));
}

inline VResult o_used(const VCase &c) {
  VResult r;
  const int n = (int)c.i("n");
  std::vector<Entry> es;
  for (int i = 0; i < n; ++i) {
    Entry e = entry_unpack(c.s(vr::fmt("e%02d", i)));
    for (int k = 0; k < 3; ++k) {
      e.iv[k] = c.i("iv", 3 * i + k);
      e.dv[k] = c.d("dv", 3 * i + k);
    }
    es.push_back(e);
  }
  const std::string file1 = tmp_name("used1.param");
  const std::string file2 = tmp_name("used2.param");
  {
    std::ofstream f(file1);
    f << render_param_file(es);
  }
  ParameterFile p1(file1);
  std::vector<Got> g1;
  bool any_default = false, any_phys = false, any_vec = false;
  int nneg = 0;
  for (auto &e : es) {
    const bool wd = !e.present || (c.i("ask_twice") && e.type % 2 == 0);
    Got g = query(p1, e, wd);
    if (c.i("ask_twice")) {
      const Got h = query(p1, e, wd);
      if (memcmp(g.iv, h.iv, sizeof g.iv) || memcmp(g.dv, h.dv, sizeof g.dv) ||
          g.sv != h.sv)
        r.fail("asking for \"" + e.key + "\" twice gives two answers");
    }
    g1.push_back(g);
    any_default = any_default || !e.present;
    any_phys = any_phys || e.type == T_PHYS || e.type == T_PHYS_VEC;
    any_vec = any_vec || (e.type >= T_VEC_DOUBLE && e.type != T_PHYS);
    for (char ch : e.unit)
      nneg += ch == '-';
    // ---- first read against the generated value
    switch (e.type) {
    case T_DOUBLE:
    case T_VEC_DOUBLE:
      for (int k = 0; k < 3; ++k)
        if (g.dv[k] != e.dv[k])
          r.fail(fmt("\"%s\" = \"%s\": component %d read as %.17g, expected "
                     "%.17g",
                     e.key.c_str(), e.text.c_str(), k, g.dv[k], e.dv[k]));
      break;
    case T_PHYS:
    case T_PHYS_VEC:
      for (int k = 0; k < (e.type == T_PHYS ? 1 : 3); ++k) {
        const double want = to_SI_exact(e.quantity, e.dv[k], e.unit);
        if (g.dv[k] != want)
          r.fail(fmt("\"%s\" = \"%s\": component %d is %.17g SI, but "
                     "to_SI(%.17g, \"%s\") = %.17g",
                     e.key.c_str(), e.text.c_str(), k, g.dv[k], e.dv[k],
                     e.unit.c_str(), want));
      }
      break;
    case T_STRING:
    case T_FILENAME:
      if (g.sv != e.text)
        r.fail("\"" + e.key + "\" read as \"" + g.sv + "\", expected \"" +
               e.text + "\"");
      break;
    default:
      for (int k = 0; k < 3; ++k)
        if (g.iv[k] != e.iv[k])
          r.fail(fmt("\"%s\" = \"%s\": component %d read as %lld, expected "
                     "%lld",
                     e.key.c_str(), e.text.c_str(), k, (long long)g.iv[k],
                     (long long)e.iv[k]));
    }
  }
  std::ostringstream dump1;
  p1.print_contents(dump1);
  // ---- the dump itself
  c20::Flat used, comments;
  std::string err;
  if (!c20::refparse(dump1.str(), used, err, nullptr, true, &comments)) {
    r.fail("used-values dump is not well formed: " + err);
  } else {
    if (used.size() != es.size())
      r.fail(fmt("dump has %zu keys, %zu parameters were queried", used.size(),
                 es.size()));
    for (auto &e : es) {
      if (!used.count(e.key)) {
        r.fail("dump lacks \"" + e.key + "\"");
        continue;
      }
      if (used[e.key] == "value not used")
        r.fail("\"" + e.key + "\" was queried but is dumped as not used");
      const std::string want = e.present ? e.text : "default value";
      if (comments[e.key] != want)
        r.fail("dump of \"" + e.key + "\" quotes \"" + comments[e.key] +
               "\" as the original value, the file says \"" + want + "\"");
    }
  }
  // ---- feed the dump back
  {
    std::ofstream f(file2);
    f << dump1.str();
  }
  ParameterFile p2(file2);
  for (size_t i = 0; i < es.size(); ++i) {
    const Entry &e = es[i];
    if (!p2.has_value(e.key)) {
      r.fail("dump fed back: \"" + e.key + "\" is missing");
      continue;
    }
    // the default is passed again (as the program would) but must not be used
    Entry e2 = e;
    if (!e.present) {
      // poison the default so that using it is visible
      e2.iv[0] += 7;
      e2.dv[0] = e2.dv[0] * 3. + 1.;
      if (e.type == T_STRING || e.type == T_FILENAME)
        e2.text = e.text + "_poison";
      if (e.type == T_PHYS || e.type == T_PHYS_VEC)
        e2.text = e.text; // textual default: same (value differs by precision)
    }
    const Got g2 = query(p2, e2, !e.present);
    const Got &g = g1[i];
    switch (e.type) {
    case T_DOUBLE:
    case T_VEC_DOUBLE:
    case T_PHYS:
    case T_PHYS_VEC:
      for (int k = 0; k < 3; ++k)
        if (!printed_close(g2.dv[k], g.dv[k]))
          r.fail(fmt("\"%s\": %.17g became %.17g after dump and re-read "
                     "(dumped as \"%s\")",
                     e.key.c_str(), g.dv[k], g2.dv[k], used[e.key].c_str()));
      break;
    case T_STRING:
    case T_FILENAME:
      if (g2.sv != g.sv)
        r.fail("\"" + e.key + "\": \"" + g.sv + "\" became \"" + g2.sv +
               "\" after dump and re-read");
      break;
    default:
      for (int k = 0; k < 3; ++k)
        if (g2.iv[k] != g.iv[k])
          r.fail(fmt("\"%s\": %lld became %lld after dump and re-read (dumped "
                     "as \"%s\")",
                     e.key.c_str(), (long long)g.iv[k], (long long)g2.iv[k],
                     used[e.key].c_str()));
    }
  }
  // ---- second dump: same used values, text for text
  std::ostringstream dump2;
  p2.print_contents(dump2);
  c20::Flat used2;
  if (!c20::refparse(dump2.str(), used2, err, nullptr, true))
    r.fail("second used-values dump is not well formed: " + err);
  else if (r.ok && used2 != used) {
    for (auto &kv : used)
      if (!used2.count(kv.first) || used2[kv.first] != kv.second) {
        r.fail("second dump prints \"" + kv.first + ": " +
               (used2.count(kv.first) ? used2[kv.first] : "<missing>") +
               "\", first dump \"" + kv.second + "\"");
        break;
      }
    if (r.ok)
      r.fail("second dump has extra keys");
  }
  unlink(file1.c_str());
  unlink(file2.c_str());
  if (any_default)
    r.label("default-used");
  if (any_phys)
    r.label("unit-bearing");
  if (any_vec)
    r.label("vector");
  if (nneg >= 2)
    r.label("two-negative-exponents");
  int maxdepth = 0;
  for (auto &e : es)
    maxdepth = std::max(maxdepth, (int)c20::groups_of(e.key).size());
  r.label(fmt("depth-%d", maxdepth));
  r.nontrivial = any_default && any_phys;
  return r;
}

inline void add_used_values_props(std::vector<VProp> &props) {
  props.push_back(
      {"used_values", 6000, gen_used, o_used,
       "1..14 parameters of 15 types (int/unsigned/long/uint8, double, bool, "
       "string, file name, double/int/unsigned/bool vectors, unit-bearing "
       "scalars and vectors of all 26 quantities) at nesting 0..3, 35 % absent "
       "(default used); number spellings %g/%.17g/%e/hex/1e3; queried through "
       "the typed getters, dumped with ParameterFile::print_contents, fed back "
       "and queried again (with poisoned defaults); non-trivial = at least one "
       "default and one unit-bearing value",
       {{"default-used", 0.5}, {"unit-bearing", 0.3}}});
}

} // namespace c20h

#endif
