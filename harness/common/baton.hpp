// Deterministic "baton" scheduler: N logical threads are real std::threads that
// run strictly one at a time.  Every AtomicValue operation of the code under
// test calls cmi_verif_yield() (hook in /repo/src/VerifHooks.hpp, guard
// CMI_VERIF); a yield hands the baton to the thread selected by the next
// element of a *generated* choice vector (round-robin once the vector is
// exhausted, so a spinning thread can never starve a lock holder).  The
// interleaving is therefore a pure function of (programs, choices): it shrinks
// and replays exactly, at the granularity of single atomic operations under
// sequential consistency (the only memory order the code uses).
//
// Usage:
//   baton::Scheduler S;
//   bool ok = S.run({prog0, prog1, prog2}, choices, max_yields);
//   // ok == false: max_yields exceeded (bounded-termination failure); the
//   // programs were unwound with baton::Abort, shared state is garbage.
//   S.yields, S.switches, S.mid_op_switches are statistics for the evidence.
//
// A program may call baton::pause() between operations to mark a quiescent
// point (it is also a yield), and baton::current() to know its logical id.
#ifndef BATON_HPP
#define BATON_HPP

#include "VerifHooks.hpp"

#include <condition_variable>
#include <cstdint>
#include <functional>
#include <mutex>
#include <thread>
#include <vector>

namespace baton {

struct Abort {};

class Scheduler;
inline Scheduler *&active() {
  static Scheduler *s = nullptr;
  return s;
}
inline int &my_id() {
  static thread_local int id = -1;
  return id;
}

class Scheduler {
public:
  uint64_t yields = 0;
  uint64_t switches = 0;
  bool aborted = false;
  std::vector<int> trace; // sequence of thread ids that received the baton

  bool run(const std::vector<std::function<void()>> &programs,
           const std::vector<int> &choices, uint64_t max_yields = 200000,
           bool keep_trace = false) {
    _n = (int)programs.size();
    _choices = choices;
    _pos = 0;
    _alive.assign(_n, true);
    _nalive = _n;
    _current = -1;
    _max_yields = max_yields;
    _keep_trace = keep_trace;
    yields = switches = 0;
    aborted = false;
    trace.clear();
    active() = this;
    cmi_verif_yield_hook() = &Scheduler::hook;
    std::vector<std::thread> th;
    for (int i = 0; i < _n; ++i) {
      th.emplace_back([this, i, &programs]() {
        my_id() = i;
        {
          std::unique_lock<std::mutex> lk(_m);
          _cv.wait(lk, [&] { return _current == i || aborted; });
        }
        if (!aborted) {
          try {
            programs[i]();
          } catch (const Abort &) {
          }
        }
        finish(i);
        my_id() = -1;
      });
    }
    {
      std::unique_lock<std::mutex> lk(_m);
      _current = pick(-1);
      if (_keep_trace)
        trace.push_back(_current);
      _cv.notify_all();
    }
    for (auto &t : th)
      t.join();
    cmi_verif_yield_hook() = nullptr;
    active() = nullptr;
    return !aborted;
  }

  static void hook() {
    Scheduler *s = active();
    if (s != nullptr && my_id() >= 0)
      s->yield();
  }

  void yield() {
    const int me = my_id();
    std::unique_lock<std::mutex> lk(_m);
    if (aborted)
      throw Abort();
    ++yields;
    if (yields > _max_yields) {
      aborted = true;
      _cv.notify_all();
      throw Abort();
    }
    const int next = pick(me);
    if (next != me) {
      ++switches;
      _current = next;
      if (_keep_trace)
        trace.push_back(next);
      _cv.notify_all();
      _cv.wait(lk, [&] { return _current == me || aborted; });
      if (aborted)
        throw Abort();
    }
  }

private:
  int pick(int me) {
    // next thread among the alive ones; generated choice first, round-robin after
    if (_nalive == 0)
      return -1;
    if (_pos < _choices.size()) {
      int k = _choices[_pos++] % _nalive;
      if (k < 0)
        k += _nalive;
      for (int i = 0; i < _n; ++i) {
        if (_alive[i]) {
          if (k == 0)
            return i;
          --k;
        }
      }
    }
    for (int d = 1; d <= _n; ++d) {
      const int i = (me + d + _n) % _n;
      if (_alive[i])
        return i;
    }
    return -1;
  }

  void finish(int me) {
    std::unique_lock<std::mutex> lk(_m);
    _alive[me] = false;
    --_nalive;
    if (_nalive > 0 && !aborted) {
      _current = pick(me);
      if (_keep_trace)
        trace.push_back(_current);
    }
    _cv.notify_all();
  }

  int _n = 0, _nalive = 0, _current = -1;
  std::vector<int> _choices;
  size_t _pos = 0;
  std::vector<bool> _alive;
  uint64_t _max_yields = 0;
  bool _keep_trace = false;
  std::mutex _m;
  std::condition_variable _cv;
};

inline void pause() { Scheduler::hook(); }
inline int current() { return my_id(); }

} // namespace baton

#endif // BATON_HPP
