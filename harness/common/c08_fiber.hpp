// Fiber twin of baton.hpp (C08 helper): the same deterministic scheduler - the
// same pick() rule, the same yield/abort semantics, therefore the SAME
// interleaving for the same (programs, choices) - but the logical threads are
// ucontext coroutines on one OS thread instead of real std::threads that hand a
// baton over a condition variable.  A hand-over costs ~0.1 us instead of a
// futex round trip (which on a loaded machine is 10 us .. several ms), so two
// orders of magnitude more schedules fit in the same CPU budget.  The code
// under test uses no thread-local state, so it cannot tell the difference;
// c08_containers.cpp cross-checks the two engines against each other (same
// case => identical sequence of returned values).
//
//   fbaton::Scheduler S;
//   bool ok = S.run({prog0, prog1}, choices, max_yields);
//   S.yields, S.switches
//   fbaton::pause(), fbaton::current()
#ifndef C08_FIBER_HPP
#define C08_FIBER_HPP

#include "VerifHooks.hpp"

#include <cstdint>
#include <cstdlib>
#include <functional>
#include <ucontext.h>
#include <vector>

namespace fbaton {

struct Abort {};

class Scheduler;
inline Scheduler *&active() {
  static Scheduler *s = nullptr;
  return s;
}

class Scheduler {
public:
  uint64_t yields = 0;
  uint64_t switches = 0;
  bool aborted = false;
  // a program ended with an exception other than Abort (harness bug or an
  // unexpected VerifAbort): reported by the caller
  bool foreign_exception = false;

  static const size_t STACK = 256 * 1024;

  bool run(const std::vector<std::function<void()>> &programs,
           const std::vector<int> &choices, uint64_t max_yields = 200000) {
    _n = (int)programs.size();
    _programs = &programs;
    _choices = choices;
    _pos = 0;
    _alive.assign(_n, true);
    _started.assign(_n, false);
    _nalive = _n;
    _current = -1;
    _max_yields = max_yields;
    yields = switches = 0;
    aborted = false;
    foreign_exception = false;
    _ctx.resize(_n);
    if (_stacks.size() < (size_t)_n)
      _stacks.resize(_n, nullptr);
    for (int i = 0; i < _n; ++i) {
      if (_stacks[i] == nullptr)
        _stacks[i] = (char *)malloc(STACK);
      getcontext(&_ctx[i]);
      _ctx[i].uc_stack.ss_sp = _stacks[i];
      _ctx[i].uc_stack.ss_size = STACK;
      _ctx[i].uc_link = &_main;
      makecontext(&_ctx[i], (void (*)()) & Scheduler::trampoline, 0);
    }
    active() = this;
    cmi_verif_yield_hook() = &Scheduler::hook;
    _current = pick(-1);
    if (_current >= 0) {
      _started[_current] = true;
      swapcontext(&_main, &_ctx[_current]);
    }
    cmi_verif_yield_hook() = nullptr;
    active() = nullptr;
    _current = -1;
    return !aborted;
  }

  ~Scheduler() {
    for (char *s : _stacks)
      free(s);
  }

  int current() const { return _current; }

  static void hook() {
    Scheduler *s = active();
    if (s != nullptr && s->_current >= 0)
      s->yield();
  }

  void yield() {
    const int me = _current;
    if (aborted)
      throw Abort();
    ++yields;
    if (yields > _max_yields) {
      aborted = true;
      throw Abort();
    }
    const int next = pick(me);
    if (next != me) {
      ++switches;
      _current = next;
      _started[next] = true;
      swapcontext(&_ctx[me], &_ctx[next]);
      // resumed
      if (aborted)
        throw Abort();
    }
  }

private:
  static void trampoline() {
    Scheduler *s = active();
    const int me = s->_current;
    if (!s->aborted) {
      try {
        (*s->_programs)[me]();
      } catch (const Abort &) {
      } catch (...) {
        s->foreign_exception = true;
        s->aborted = true;
      }
    }
    s->finish(me);
    // not reached
  }

  void finish(int me) {
    _alive[me] = false;
    --_nalive;
    int next = -1;
    if (_nalive > 0) {
      if (!aborted) {
        next = pick(me);
      } else {
        // unwind the fibers that are parked inside a yield; the ones that never
        // started have nothing to unwind
        for (int i = 0; i < _n; ++i) {
          if (_alive[i] && _started[i]) {
            next = i;
            break;
          }
        }
      }
    }
    if (next >= 0) {
      _current = next;
      _started[next] = true;
      setcontext(&_ctx[next]);
    } else {
      _current = -1;
      setcontext(&_main);
    }
  }

  int pick(int me) {
    // identical to baton::Scheduler::pick
    if (_nalive == 0)
      return -1;
    if (_pos < _choices.size()) {
      int k = _choices[_pos++] % _nalive;
      if (k < 0)
        k += _nalive;
      for (int i = 0; i < _n; ++i) {
        if (_alive[i]) {
          if (k == 0)
            return i;
          --k;
        }
      }
    }
    for (int d = 1; d <= _n; ++d) {
      const int i = (me + d + _n) % _n;
      if (_alive[i])
        return i;
    }
    return -1;
  }

  int _n = 0, _nalive = 0, _current = -1;
  const std::vector<std::function<void()>> *_programs = nullptr;
  std::vector<int> _choices;
  size_t _pos = 0;
  std::vector<bool> _alive, _started;
  uint64_t _max_yields = 0;
  std::vector<ucontext_t> _ctx;
  ucontext_t _main;
  std::vector<char *> _stacks;
};

inline void pause() { Scheduler::hook(); }
inline int current() {
  Scheduler *s = active();
  return s ? s->current() : -1;
}

} // namespace fbaton

#endif // C08_FIBER_HPP
