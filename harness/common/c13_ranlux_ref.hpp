// Independent integer implementation of the double-precision RANLUX generator
// at luxury level 2 ("ranlxd2"), written from the definition:
//
//  * M. Luescher, Comput. Phys. Commun. 79 (1994) 100: Marsaglia-Zaman
//    subtract-with-borrow  x_n = x_{n-s} - x_{n-r} - c_{n-1}  (mod b), with
//    c_n = 1 if the difference was negative and 0 otherwise; of every p
//    generated numbers only r are delivered, the rest is discarded.
//  * double-precision variant: base b = 2^48, r = 12, s = 5 (two 24-bit
//    RANLUX digits per number: r = 24/2, s = 10/2), p = 397 at level 2;
//    the delivered value is x / 2^48.
//  * GSL initialisation: a 31-bit shift register with feedback
//    b_{n+31} = b_n xor b_{n+18}, loaded with the seed (least significant bit
//    first; seed 0 is replaced by 1, then only the low 31 bits are used); the
//    12 initial numbers take 48 successive *complemented* bits each, most
//    significant bit first.  Delivery starts after a first block of p updates.
//
// Everything is plain uint64_t arithmetic on an explicit sequence x_0, x_1, ...
// (no circular buffer, no unrolling, no floating point), so it shares no
// structure with RandomGenerator.hpp.
#ifndef C13_RANLUX_REF_HPP
#define C13_RANLUX_REF_HPP

#include <cstdint>
#include <vector>

namespace rlx {

static const int R = 12;          // long lag
static const int S = 5;           // short lag
static const int P = 397;         // updates per delivered block of R numbers
static const uint64_t B = 1ull << 48;

// the seed that actually selects the stream
inline uint32_t canonical_seed(int64_t seed) {
  if (seed == 0)
    seed = 1;
  return (uint32_t)((uint64_t)seed & 0x7fffffffull);
}

class Stream {
  std::vector<uint64_t> _x; // the whole subtract-with-borrow sequence so far
  unsigned _c;              // borrow of the last update
  uint64_t _delivered;      // number of values handed out

  void extend_to(size_t n) { // make x_0 .. x_{n-1} available
    while (_x.size() < n) {
      const size_t k = _x.size();
      const uint64_t a = _x[k - S], b = _x[k - R] + _c;
      if (a >= b) {
        _x.push_back(a - b);
        _c = 0;
      } else {
        _x.push_back(a + B - b);
        _c = 1;
      }
    }
  }

public:
  explicit Stream(int64_t seed) : _c(0), _delivered(0) {
    const uint32_t s = canonical_seed(seed);
    const int nbit = 48 * R;
    std::vector<unsigned char> bit(nbit + 31);
    for (int k = 0; k < 31; ++k)
      bit[k] = (s >> k) & 1u;
    for (int k = 0; k + 31 < nbit + 31; ++k)
      bit[k + 31] = bit[k] ^ bit[k + 18];
    for (int j = 0; j < R; ++j) {
      uint64_t v = 0;
      for (int m = 0; m < 48; ++m)
        v = (v << 1) | (uint64_t)(1u - bit[48 * j + m]);
      _x.push_back(v);
    }
  }

  // 48-bit integer of the next delivered value (value = result / 2^48)
  uint64_t next() {
    const uint64_t block = _delivered / R, off = _delivered % R;
    ++_delivered;
    const size_t idx = (size_t)(P * (block + 1) + off);
    extend_to(idx + 1);
    return _x[idx];
  }

  uint64_t delivered() const { return _delivered; }
};

} // namespace rlx

#endif
