"""Incremental build of /repo's current working tree + harnesses (flock-serialised)."""
import fcntl
import os
import subprocess
import sys

ROOT = os.path.dirname(os.path.dirname(os.path.abspath(__file__)))
REPO = os.environ.get("VERIF_REPO") or "/repo"
BUILD = os.environ.get("VERIF_BUILD") or os.path.join(ROOT, "build")


def targets_for(entry):
    t = []
    for u in entry["units"]:
        if u["kind"] == "rc":
            t.append(BUILD + "/bin/" + u["bin"])
        elif u["kind"] == "fuzz":
            t.append(BUILD + "/bin/fuzz_" + u["target"])
        elif u["kind"] == "py":
            t += [BUILD + "/bin/" + n for n in u.get("needs", ["CMacIonize"])]
    return t


def make(targets, jobs=16):
    os.makedirs(BUILD, exist_ok=True)
    lock = open(os.path.join(BUILD, ".lock"), "w")
    fcntl.flock(lock, fcntl.LOCK_EX)
    try:
        p = subprocess.run([sys.executable, os.path.join(ROOT, "lib", "gen_headers.py")],
                           stdout=subprocess.PIPE, stderr=subprocess.STDOUT, text=True)
        if p.returncode != 0:
            return False, p.stdout
        if not targets:
            return True, ""
        p = subprocess.run(["make", "-C", ROOT, "-j%d" % jobs, "-k", "REPO=" + REPO, "B=" + BUILD] + list(targets),
                           stdout=subprocess.PIPE, stderr=subprocess.STDOUT, text=True)
        return p.returncode == 0, p.stdout
    finally:
        fcntl.flock(lock, fcntl.LOCK_UN)
        lock.close()
