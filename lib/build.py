"""Incremental build of /repo's current working tree + harnesses (flock-serialised)."""
import fcntl
import os
import subprocess
import sys

ROOT = os.path.dirname(os.path.dirname(os.path.abspath(__file__)))


def targets_for(entry):
    t = []
    for u in entry["units"]:
        if u["kind"] == "rc":
            t.append("build/bin/" + u["bin"])
        elif u["kind"] == "fuzz":
            t.append("build/bin/fuzz_" + u["target"])
        elif u["kind"] == "py":
            t += ["build/bin/" + n for n in u.get("needs", ["CMacIonize"])]
    return t


def make(targets, jobs=16):
    os.makedirs(os.path.join(ROOT, "build"), exist_ok=True)
    lock = open(os.path.join(ROOT, "build", ".lock"), "w")
    fcntl.flock(lock, fcntl.LOCK_EX)
    try:
        p = subprocess.run([sys.executable, os.path.join(ROOT, "lib", "gen_headers.py")],
                           stdout=subprocess.PIPE, stderr=subprocess.STDOUT, text=True)
        if p.returncode != 0:
            return False, p.stdout
        if not targets:
            return True, ""
        p = subprocess.run(["make", "-C", ROOT, "-j%d" % jobs, "-k"] + list(targets),
                           stdout=subprocess.PIPE, stderr=subprocess.STDOUT, text=True)
        return p.returncode == 0, p.stdout
    finally:
        fcntl.flock(lock, fcntl.LOCK_UN)
        lock.close()
