"""Merge the partial evidence written by the harness processes into
/verif/evidence/<id>.json and validate it against the schema."""
import json
import os

ROOT = os.path.dirname(os.path.dirname(os.path.abspath(__file__)))
SCHEMA = "/root/.vp/EVIDENCE.schema.json"


def merge(pid, entry, tier, seed, partials, wall, nviol, nreplayed, inconclusive, known_hit):
    subs = {}
    for part in partials:
        for name, pr in part["props"].items():
            s = subs.setdefault(name, {
                "evaluations": 0, "nontrivial": 0, "hashes": set(), "labels": {},
                "known_excluded": 0, "samples": [], "rule": pr.get("rule", ""),
                "failed": False, "wall_s": 0.0, "distinct_extra": 0})
            s["evaluations"] += pr["evaluations"]
            s["nontrivial"] += pr.get("nontrivial", 0)
            hs = pr.get("distinct_hashes")
            if hs is not None and len(hs) >= pr.get("distinct_nontrivial", 0):
                s["hashes"].update(hs)
            else:  # hash list truncated: count what is certain
                s["hashes"].update(hs or [])
            s["known_excluded"] += pr.get("known_excluded", 0)
            s["wall_s"] += pr.get("wall_s", 0)
            s["failed"] = s["failed"] or pr.get("failed", False)
            for k, v in pr.get("labels", {}).items():
                s["labels"][k] = s["labels"].get(k, 0) + v
            if len(s["samples"]) < 3:
                s["samples"] += pr.get("samples", [])[:3 - len(s["samples"])]
    evaluations = sum(s["evaluations"] for s in subs.values())
    distinct = sum(len(s["hashes"]) for s in subs.values())
    samples = []
    for name, s in sorted(subs.items()):
        for c in s["samples"][:2]:
            samples.append({"subcheck": name, "case": c})
    if not samples:
        # every unit stopped at its first failure before a non-trivial case was
        # sampled: show the failing cases instead
        for part in partials:
            for name, pr in part["props"].items():
                if pr.get("failed"):
                    samples.append({"subcheck": name, "failing_case_file": pr.get("fail_file", ""),
                                    "message": pr.get("fail_msg", "")[:500]})
    if not samples:
        samples.append({"note": "no non-trivial case was generated in this run"})
    rules = "; ".join("%s: %s" % (n, s["rule"]) for n, s in sorted(subs.items()) if s["rule"])
    ev = {
        "property_id": pid,
        "tier": tier,
        "seed": seed,
        "level": entry.get("level", "exploration"),
        "coverage": {
            "evaluations": evaluations,
            "distinct_nontrivial": distinct,
            "rule": entry.get("rule", "") + (" || per sub-check: " + rules if rules else ""),
            "samples": samples[:40],
            "replayed_regression_cases": nreplayed,
            "subchecks": {n: {"evaluations": s["evaluations"],
                              "nontrivial": s["nontrivial"],
                              "distinct_nontrivial": len(s["hashes"]),
                              "known_finding_cases_excluded": s["known_excluded"],
                              "labels": s["labels"], "wall_s": round(s["wall_s"], 2),
                              "failed": s["failed"]}
                          for n, s in sorted(subs.items())},
            "inconclusive": inconclusive,
            "known_findings_hit": known_hit,
        },
        "assumptions": entry.get("assumptions", []),
        "wall_s": round(wall, 2),
        "violations": nviol,
    }
    if entry.get("exhaustive"):
        ev["coverage"]["exhaustive"] = True
    return ev


def write(pid, ev):
    edir = os.path.join(os.environ["VERIF_BUILD"], "evidence") if os.environ.get("VERIF_BUILD") else os.path.join(ROOT, "evidence")
    os.makedirs(edir, exist_ok=True)
    path = os.path.join(edir, pid + ".json")
    try:
        import jsonschema
        with open(SCHEMA) as f:
            jsonschema.validate(ev, json.load(f))
    except ImportError:
        pass
    except Exception as e:  # still write, but make the problem visible
        print("EVIDENCE-SCHEMA-PROBLEM %s: %s" % (pid, str(e)[:300]), flush=True)
    with open(path, "w") as f:
        json.dump(ev, f, indent=1, sort_keys=True)
        f.write("\n")
