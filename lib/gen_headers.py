#!/usr/bin/env python3
"""Generate the CMake-configured headers of CMacIonize into /verif/build/gen
without CMake, straight from /repo/src/*.in (so a template edit is picked up).

Only rewrites a file when its content changes (keeps make incremental).
"""
import os
import re
import subprocess
import sys
import tarfile

REPO = os.environ.get("VERIF_REPO", "/repo")
ROOT = os.path.dirname(os.path.dirname(os.path.abspath(__file__)))
BUILD = os.environ.get("VERIF_BUILD") or os.path.join(ROOT, "build")
GEN = os.path.join(BUILD, "gen")
DATA = os.path.join(BUILD, "data")

DEFINES = {
    "HAVE_ATOMIC", "HAVE_HDF5", "HAVE_MULTIPRECISION", "HAVE_OPENMP",
    "HAVE_POSIX",
}
if os.environ.get("VERIF_ASSERTIONS"):
    DEFINES.add("HAVE_ASSERTIONS")


def write_if_changed(path, content):
    try:
        with open(path) as f:
            if f.read() == content:
                return
    except OSError:
        pass
    with open(path, "w") as f:
        f.write(content)


def unpack(tarname, sub=None):
    src = os.path.join(REPO, "data", tarname)
    dest = DATA if sub is None else os.path.join(DATA, sub)
    os.makedirs(dest, exist_ok=True)
    stamp = os.path.join(dest, "." + tarname + ".stamp")
    if os.path.exists(src) and os.path.getsize(src) > 0 and not os.path.exists(stamp):
        try:
            with tarfile.open(src) as t:
                t.extractall(dest)
            open(stamp, "w").close()
        except Exception as e:  # emptied data files in the sandbox
            sys.stderr.write("gen_headers: cannot unpack %s: %s\n" % (tarname, e))


def main():
    os.makedirs(GEN, exist_ok=True)
    os.makedirs(DATA, exist_ok=True)
    unpack("fg_uvb_dec11.tar.gz")
    unpack("DeRijckeCooling.tar.gz")
    unpack("wmbasic.tar.gz")
    unpack("PopStar.tar.gz")
    unpack("pegase3_chab.tar.gz", "Pegase3")
    d = os.path.join(REPO, "data")
    subst = {
        "VERNERCROSSSECTIONSDATALOCATION_A": d + "/verner_A.dat",
        "VERNERCROSSSECTIONSDATALOCATION_B": d + "/verner_B.dat",
        "VERNERCROSSSECTIONSDATALOCATION_C": d + "/verner_C.dat",
        "VERNERRECOMBINATIONRATESDATALOCATION": d + "/verner_rec_data.txt",
        "HELIUMTWOPHOTONCONTINUUMDATALOCATION": d + "/He2q.dat",
        "FAUCHERGIGUEREDATALOCATION": DATA + "/fg_uvb_dec11/",
        "DERIJCKEDATALOCATION": DATA + "/DeRijckeCooling/",
        "WMBASICDATALOCATION": DATA + "/wmbasic/",
        "PEGASE3DATALOCATION": DATA + "/Pegase3/",
        "POPSTARDATALOCATION": DATA + "/PopStar/",
        "CASTELLIKURUCZDATALOCATION": d + "/CastelliKurucz.hdf5",
        "MAX_NUM_THREADS": "64",
        "CONFIGURATION_OPTIONS_NUMBER": "0+1",
        "CONFIGURATION_OPTIONS_KEYS": '"VERIF_BUILD",',
        "CONFIGURATION_OPTIONS_VALUES": '"True",',
        "GIT_BUILD_STRING": "verif",
        "COMPILATION_TIME_DAY": "1", "COMPILATION_TIME_MONTH": "1",
        "COMPILATION_TIME_YEAR": "2000", "COMPILATION_TIME_HOUR": "0",
        "COMPILATION_TIME_MINUTES": "0", "COMPILATION_TIME_SECONDS": "0",
        "COMPILER_NAME": "verif", "COMPILER_VERSION": "0",
        "OS_NAME": "Linux", "OS_KERNEL_NAME": "Linux",
        "OS_KERNEL_RELEASE": "0", "OS_KERNEL_VERSION": "0",
        "OS_HARDWARE_NAME": "x86_64", "OS_HOST_NAME": "verif",
    }
    srcdir = os.path.join(REPO, "src")
    for name in sorted(os.listdir(srcdir)):
        if not name.endswith(".in"):
            continue
        with open(os.path.join(srcdir, name)) as f:
            text = f.read()

        def cmdef(m):
            return ("#define %s" % m.group(1)) if m.group(1) in DEFINES \
                else ("/* #undef %s */" % m.group(1))
        text = re.sub(r"#cmakedefine\s+(\w+)", cmdef, text)
        text = re.sub(r"@(\w+)@", lambda m: subst.get(m.group(1), ""), text)
        write_if_changed(os.path.join(GEN, name[:-3]), text)


if __name__ == "__main__":
    main()
