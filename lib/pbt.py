"""Hypothesis-based runner for checks that drive the real executable.

A check script defines sub-checks, each with a Hypothesis strategy producing a
JSON-serialisable *case* and an oracle `check(case, workdir) -> Result`.  The
runner
  * runs the sub-check in W worker processes (Hypothesis is sequential), each
    with its own derived seed (`@seed`, database=None, deadline=None),
  * counts evaluations / labels / distinct non-trivial cases / samples and
    writes the partial-evidence JSON the driver (`/verif/check`) merges,
  * on failure lets Hypothesis shrink under an execution budget, writes the
    shrunk case as `<faildir>/<ID>-<sub>-<hash>.json`; `--replay <file>` re-runs
    the oracle on a saved case without Hypothesis.
"""
import hashlib
import json
import multiprocessing
import os
import shutil
import sys
import time
import traceback

from hypothesis import HealthCheck, Phase, given, seed, settings


class Result:
    def __init__(self):
        self.ok = True
        self.msg = ""
        self.nontrivial = False
        self.labels = []
        self.known = ""
        self.inconclusive = ""
        # True for failures read off a recorded trace/record of a real
        # multi-threaded run: the violation was observed, but re-running the
        # same case need not reproduce the interleaving
        self.schedule_dependent = False

    def fail(self, msg):
        if self.ok:
            self.ok = False
            self.msg = msg
        return self

    def label(self, l):
        self.labels.append(l)


def case_hash(case):
    return hashlib.sha1(json.dumps(case, sort_keys=True).encode()).hexdigest()[:16]


class Sub:
    def __init__(self, name, strategy, check, quick, thorough, rule, workers=None,
                 shrink_budget=25, floors=None):
        self.name = name
        self.strategy = strategy
        self.check = check
        self.quick = quick
        self.thorough = thorough
        self.rule = rule
        self.workers = workers
        self.shrink_budget = shrink_budget
        self.floors = floors or {}


def _worker(args):
    (script_dir, pid, subname, widx, nexamples, wseed, tmpbase, known) = args
    # re-import the script's definitions in the worker
    sub = _REGISTRY[subname]
    stats = {"evaluations": 0, "nontrivial": 0, "hashes": [], "labels": {},
             "samples": [], "known_excluded": 0, "failed": False, "fail_msg": "",
             "fail_case": None, "inconclusive": [], "known_hits": [],
             "schedule_dependent": False}
    seen = set()
    state = {"failing": None, "budget": sub.shrink_budget, "best": None,
             "best_msg": "", "n": 0}
    workdir_base = os.path.join(tmpbase, "%s_w%d" % (subname, widx))
    os.makedirs(workdir_base, exist_ok=True)

    def body(case):
        h = case_hash(case)
        shrinking = state["failing"] is not None
        if shrinking:
            if h == case_hash(state["best"]):
                raise AssertionError(state["best_msg"])
            if state["budget"] <= 0:
                return  # budget exhausted: pretend everything else passes
            state["budget"] -= 1
        state["n"] += 1
        wd = os.path.join(workdir_base, "c%d" % state["n"])
        shutil.rmtree(wd, ignore_errors=True)
        os.makedirs(wd)
        try:
            r = sub.check(case, wd)
        finally:
            shutil.rmtree(wd, ignore_errors=True)
        if r.inconclusive:
            if not shrinking:
                stats["inconclusive"].append(r.inconclusive)
            return
        if not r.ok and r.known and r.known in known:
            if not shrinking:
                stats["known_excluded"] += 1
                if r.known not in stats["known_hits"]:
                    stats["known_hits"].append(r.known)
            return
        if not shrinking:
            stats["evaluations"] += 1
            for l in r.labels:
                stats["labels"][l] = stats["labels"].get(l, 0) + 1
            if r.nontrivial:
                stats["nontrivial"] += 1
                if h not in seen:
                    seen.add(h)
                    if len(stats["samples"]) < 3:
                        stats["samples"].append(case)
        if not r.ok:
            state["failing"] = True
            state["best"] = case
            state["best_msg"] = r.msg
            state["schedule_dependent"] = bool(r.schedule_dependent)
            raise AssertionError(r.msg)

    test = given(sub.strategy)(body)
    test = seed(wseed)(test)
    test = settings(max_examples=nexamples, database=None, deadline=None,
                    derandomize=False, report_multiple_bugs=False,
                    suppress_health_check=list(HealthCheck),
                    phases=[Phase.generate, Phase.shrink])(test)
    try:
        test()
    except AssertionError:
        stats["failed"] = True
        stats["fail_msg"] = state["best_msg"]
        stats["fail_case"] = state["best"]
        stats["schedule_dependent"] = state.get("schedule_dependent", False)
    except Exception:
        if state["best"] is not None:
            # e.g. hypothesis' Flaky: the failing example did not fail again
            stats["failed"] = True
            stats["fail_msg"] = state["best_msg"]
            stats["fail_case"] = state["best"]
            stats["schedule_dependent"] = state.get("schedule_dependent", False)
        else:
            stats["inconclusive"].append("worker exception: " + traceback.format_exc()[-1500:])
    stats["hashes"] = sorted(seen)
    shutil.rmtree(workdir_base, ignore_errors=True)
    return stats


_REGISTRY = {}


def main(pid, script_file, subs):
    script = os.path.basename(script_file)
    for s in subs:
        _REGISTRY[s.name] = s
    argv = sys.argv[1:]
    tmpbase = os.environ.get("VERIF_TMP") or os.path.join(
        os.path.dirname(os.path.dirname(os.path.abspath(__file__))), "build", "tmp")
    known = set(filter(None, os.environ.get("VERIF_KNOWN", "").split(",")))
    if argv and argv[0] == "--replay":
        bad = 0
        for path in argv[1:]:
            with open(path) as f:
                j = json.load(f)
            sub = _REGISTRY[j["sub"]]
            wd = os.path.join(tmpbase, "replay_%d" % os.getpid())
            shutil.rmtree(wd, ignore_errors=True)
            os.makedirs(wd)
            try:
                r = sub.check(j["case"], wd)
            finally:
                shutil.rmtree(wd, ignore_errors=True)
            if r.inconclusive:
                print("REPLAY-INCONCLUSIVE %s: %s" % (path, r.inconclusive))
                return 2
            if not r.ok:
                if r.known and r.known in known:
                    print("REPLAY-KNOWN %s %s: %s" % (path, r.known, r.msg))
                else:
                    print("REPLAY-FAIL %s: %s" % (path, r.msg))
                    bad += 1
            else:
                print("REPLAY-OK %s" % path)
        return 1 if bad else 0

    tier = os.environ.get("VERIF_TIER", "quick")
    vseed = int(os.environ.get("VERIF_SEED", "1") or 1)
    out = os.environ.get("VERIF_OUT")
    faildir = os.environ.get("VERIF_FAILDIR", ".")
    only = set(filter(None, os.environ.get("VERIF_ONLY", "").split(",")))
    ncpu = min(16, os.cpu_count() or 4)
    props = {}
    rc = 0
    for si, sub in enumerate(subs):
        if only and sub.name not in only:
            continue
        total = sub.quick if tier == "quick" else sub.thorough
        if total <= 0:
            continue
        W = min(sub.workers or ncpu, total, ncpu)
        per = [total // W + (1 if i < total % W else 0) for i in range(W)]
        t0 = time.time()
        jobs = [(os.path.dirname(script_file), pid, sub.name, i, per[i],
                 vseed * 100003 + si * 1009 + i, tmpbase, known) for i in range(W)]
        with multiprocessing.Pool(W) as pool:
            results = pool.map(_worker, jobs)
        agg = {"evaluations": 0, "nontrivial": 0, "distinct_hashes": set(),
               "labels": {}, "samples": [], "known_excluded": 0, "failed": False,
               "fail_msg": "", "fail_file": "", "starved": [], "rule": sub.rule,
               "wall_s": time.time() - t0, "engine": "hypothesis"}
        inconclusive = []
        for st in results:
            agg["evaluations"] += st["evaluations"]
            agg["nontrivial"] += st["nontrivial"]
            agg["distinct_hashes"].update(st["hashes"])
            agg["known_excluded"] += st["known_excluded"]
            for k, v in st["labels"].items():
                agg["labels"][k] = agg["labels"].get(k, 0) + v
            if len(agg["samples"]) < 3:
                agg["samples"] += [json.dumps(c, sort_keys=True) for c in st["samples"][:1]]
            inconclusive += st["inconclusive"]
            for m in st["known_hits"]:
                print("KNOWN-FINDING-HIT matcher=%s" % m)
            if st["failed"] and not agg["failed"]:
                agg["failed"] = True
                agg["fail_msg"] = st["fail_msg"]
                os.makedirs(faildir, exist_ok=True)
                fn = os.path.join(faildir, "%s-%s-%s.json" % (pid, sub.name, case_hash(st["fail_case"])))
                with open(fn, "w") as f:
                    json.dump({"script": script, "sub": sub.name, "case": st["fail_case"],
                               "msg": st["fail_msg"],
                               "schedule_dependent": st.get("schedule_dependent", False)},
                              f, indent=1, sort_keys=True)
                agg["fail_file"] = fn
                print("FAILCASE %s %s" % (sub.name, fn))
                rc = max(rc, 1)
        for lab, floor in sub.floors.items():
            frac = agg["labels"].get(lab, 0) / max(1, agg["evaluations"])
            if frac < floor and not agg["failed"]:
                agg["starved"].append(lab)
                sys.stderr.write("INCONCLUSIVE generator-starved %s/%s label=%s frac=%g floor=%g\n" % (
                    pid, sub.name, lab, frac, floor))
                if rc == 0:
                    rc = 2
        if inconclusive:
            sys.stderr.write("INCONCLUSIVE %s/%s: %d cases inconclusive, e.g. %s\n" % (
                pid, sub.name, len(inconclusive), inconclusive[0][:400]))
            agg["labels"]["inconclusive-cases"] = len(inconclusive)
            # inconclusive cases are not failures; too many of them starve the check
            if len(inconclusive) > 0.2 * max(1, total) and rc == 0:
                rc = 2
        agg["distinct_nontrivial"] = len(agg["distinct_hashes"])
        agg["distinct_hashes"] = sorted(agg["distinct_hashes"])
        props[sub.name] = agg
    if out:
        with open(out, "w") as f:
            json.dump({"property_id": pid, "props": props}, f)
    return rc
