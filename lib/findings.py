"""known_findings.json is committed and never written at run time."""
import json
import os

ROOT = os.path.dirname(os.path.dirname(os.path.abspath(__file__)))


def load():
    p = os.path.join(ROOT, "known_findings.json")
    if not os.path.exists(p):
        return []
    with open(p) as f:
        return json.load(f)["findings"]
