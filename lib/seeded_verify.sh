#!/bin/bash
# Confirm a seeded change delivered by a mutation agent and run our check on it.
#   lib/seeded_verify.sh <PID> <dir with patch.diff, demo, build_and_run.txt, meta.json> [<name>]
# 1. fresh clone of /repo: demo must PASS;  2. + patch: pinned tests must pass, demo must FAIL;
# 3. lib/mutcheck.sh <PID> patch.diff -> caught / missed.  Results are appended to <dir>/verify.log
PID="$1"; D="$(readlink -f "$2")"; NAME="${3:-$(basename "$D")}"
HERE="$(cd "$(dirname "$0")/.." && pwd)"
C=/var/tmp/verif-seeded-$$
LOG="$D/verify.log"; : > "$LOG"
git clone -q --shared /repo "$C" || exit 2
echo "== pinned tests + demo on the UNCHANGED clone" | tee -a "$LOG"
/tmp/mut/run_pinned.sh "$C" 2>&1 | tail -3 | tee -a "$LOG"
( cd "$D" && REPO_DIR="$C" bash -c "$(cat build_and_run.txt)" ) > "$D/demo_unchanged.out" 2>&1; echo "demo exit (unchanged) = $?" | tee -a "$LOG"
echo "== apply patch" | tee -a "$LOG"
if ! git -C "$C" apply "$D/patch.diff"; then echo "PATCH DOES NOT APPLY" | tee -a "$LOG"; rm -rf "$C"; exit 3; fi
/tmp/mut/run_pinned.sh "$C" 2>&1 | tail -3 | tee -a "$LOG"
( cd "$D" && REPO_DIR="$C" bash -c "$(cat build_and_run.txt)" ) > "$D/demo_changed.out" 2>&1; echo "demo exit (changed) = $?" | tee -a "$LOG"
tail -2 "$D/demo_changed.out" | tee -a "$LOG"
rm -rf "$C"
echo "== our check against the patched tree" | tee -a "$LOG"
"$HERE/lib/mutcheck.sh" "$PID" "$D/patch.diff" 2>&1 | grep -E "VIOLATION|property=$PID tier|INCONCLUSIVE|patch does not|^  " | cut -c1-300 | head -8 | tee -a "$LOG"
