"""Registry of checks: one JSON file per property under /verif/registry."""
import json
import os

ROOT = os.path.dirname(os.path.dirname(os.path.abspath(__file__)))
REGISTRY = {}
_d = os.path.join(ROOT, "registry")
for _fn in sorted(os.listdir(_d)):
    if _fn.endswith(".json"):
        with open(os.path.join(_d, _fn)) as _f:
            _e = json.load(_f)
        REGISTRY[_e["property_id"]] = _e
