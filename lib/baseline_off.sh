#!/bin/bash
# Build the 55 pinned test targets in /repo/_build WITHOUT the CMI_VERIF guard
# and run exactly those tests.  (A plain `cmake --build` would also try targets
# that the project's own flags cannot compile on this image.)
set -e
HERE="$(cd "$(dirname "$0")" && pwd)"
TESTS=$(cat "$HERE/pinned_tests.txt")
ninja -C /repo/_build $TESTS >/dev/null
REGEX="^($(echo $TESTS | tr ' ' '|'))$"
cd /repo/_build
ctest --test-dir /repo/_build -j8 --timeout 900 -R "$REGEX" "$@"
