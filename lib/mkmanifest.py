#!/usr/bin/env python3
"""Regenerate MANIFEST.json from registry/*.json (run by hand after editing the registry)."""
import json
import os

ROOT = os.path.dirname(os.path.dirname(os.path.abspath(__file__)))
props = [json.loads(l) for l in open(os.path.join(ROOT, "properties.jsonl"))]
reg = {}
for fn in sorted(os.listdir(os.path.join(ROOT, "registry"))):
    if fn.endswith(".json"):
        e = json.load(open(os.path.join(ROOT, "registry", fn)))
        reg[e["property_id"]] = e
hooks_commits = []
hc = os.path.join(ROOT, "lib", "hook_commits.txt")
if os.path.exists(hc):
    hooks_commits = [l.split()[0] for l in open(hc) if l.strip()]
claimed = {l.strip() for l in open(os.path.join(ROOT, 'lib', 'claimed.txt')) if l.strip()}
checks = []
na = []
engines = {}
for p in props:
    pid = p["id"]
    e = reg.get(pid)
    if pid not in claimed:
        e = None
    if e is None or e.get("disabled"):
        na.append({"property_id": pid,
                   "reason": (e or {}).get("disabled", "check not built yet in this round (design in DESIGN.md section 4); not claimed until it runs green and has been shown to detect seeded breakage")})
        continue
    kinds = sorted({u["kind"] for u in e["units"]})
    eng = {"rc": "rapidcheck", "py": "hypothesis+executable", "fuzz": "libFuzzer"}
    for u in e["units"]:
        engines.setdefault(eng[u["kind"]], set()).add(pid)
    checks.append({
        "property_id": pid,
        "quick_cmd": "./check %s --tier quick" % pid,
        "thorough_cmd": "./check %s --tier thorough" % pid,
        "evidence_file": "/verif/evidence/%s.json" % pid,
        "replay_cmd_template": "./check %s --replay {path}" % pid,
        "engine": "+".join(eng[k] for k in kinds),
        "level_claimed": {"category": e.get("level", "exploration"),
                          "text": e["level_text"],
                          "design_ref": "DESIGN.md section 4, " + pid},
        "level_note": e["level_note"],
        "technique": e["technique"],
    })
m = {
    "version": 1,
    "setup_cmd": "./check --setup",
    "hooks": {
        "guard": "CMI_VERIF",
        "enable": "the checks compile /repo/src themselves (Makefile in /verif, objects under /verif/build) with -DCMI_VERIF; /repo/_build is never used by a check",
        "baseline_off_cmd": "/verif/lib/baseline_off.sh",
        "source_commits": hooks_commits,
        "add_only": True,
    },
    "engines": [{"name": k, "path": {"rapidcheck": "/verif/harness", "hypothesis+executable": "/verif/py", "libFuzzer": "/verif/harness/fuzz"}[k],
                 "serves_properties": sorted(v), "kind_free_text": "property-based testing / fuzzing"}
                for k, v in sorted(engines.items())],
    "checks": checks,
    "not_applicable": na,
    "notes": "All checks are property-based tests / fuzz targets with explicit oracles; see DESIGN.md. Exit 2 = inconclusive (build failure, starved generator), never a VIOLATION.",
}
with open(os.path.join(ROOT, "MANIFEST.json"), "w") as f:
    json.dump(m, f, indent=1)
    f.write("\n")
try:
    import jsonschema
    jsonschema.validate(m, json.load(open("/root/.vp/MANIFEST.schema.json")))
    print("MANIFEST.json valid: %d checks, %d not_applicable" % (len(checks), len(na)))
except ImportError:
    print("written (jsonschema not available to validate)")
