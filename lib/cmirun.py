"""Generate parameter files for, and run, the real CMacIonize executable.

A *case* is a plain dict (JSON-serialisable, so it can be saved as a replay
file).  Everything random comes from the caller (Hypothesis); nothing here
reads a clock or an RNG.
"""
import json
import os
import shutil
import subprocess
import time

ROOT = os.path.dirname(os.path.dirname(os.path.abspath(__file__)))
BUILD = os.environ.get("VERIF_BUILD") or os.path.join(ROOT, "build")
EXE = os.path.join(BUILD, "bin", "CMacIonize")
EXE_ASAN = os.path.join(BUILD, "bin", "CMacIonize_asan")


def fmt_vec(v, unit=""):
    u = (" " + unit) if unit else ""
    return "[" + ", ".join("%r%s" % (float(x), u) for x in v) + "]"


def yaml_dump(d, indent=0):
    out = []
    for k, v in d.items():
        if isinstance(v, dict):
            out.append(" " * indent + "%s:" % k)
            out.append(yaml_dump(v, indent + 2))
        else:
            if isinstance(v, bool):
                v = "true" if v else "false"
            out.append(" " * indent + "%s: %s" % (k, v))
    return "\n".join(out)


FIXED_XS = {
    "type": "FixedValue", "hydrogen_0": "6.3e-18 cm^2", "helium_0": "0. m^2",
    "carbon_1": "0. m^2", "carbon_2": "0. m^2", "nitrogen_0": "0. m^2",
    "nitrogen_1": "0. m^2", "nitrogen_2": "0. m^2", "oxygen_0": "0. m^2",
    "oxygen_1": "0. m^2", "neon_0": "0. m^2", "neon_1": "0. m^2",
    "sulphur_1": "0. m^2", "sulphur_2": "0. m^2", "sulphur_3": "0. m^2"}
FIXED_REC = {
    "type": "FixedValue", "hydrogen_1": "2.7e-13 cm^3 s^-1",
    "helium_1": "0. m^3 s^-1", "carbon_2": "0. m^3 s^-1",
    "carbon_3": "0. m^3 s^-1", "nitrogen_1": "0. m^3 s^-1",
    "nitrogen_2": "0. m^3 s^-1", "nitrogen_3": "0. m^3 s^-1",
    "oxygen_1": "0. m^3 s^-1", "oxygen_2": "0. m^3 s^-1",
    "neon_1": "0. m^3 s^-1", "neon_2": "0. m^3 s^-1",
    "sulphur_2": "0. m^3 s^-1", "sulphur_3": "0. m^3 s^-1",
    "sulphur_4": "0. m^3 s^-1"}


def blocks_yaml(blocks):
    """blocks: list of dicts origin, sides, exponent, density (m^-3),
    temperature (K), velocity (m/s, 3), neutral fraction"""
    lines = ["number of blocks: %d" % len(blocks), ""]
    for i, b in enumerate(blocks):
        lines += ["block[%d]:" % i,
                  "  origin: " + fmt_vec(b["origin"], "m"),
                  "  sides: " + fmt_vec(b["sides"], "m"),
                  "  type: %s" % b.get("type", "cube"),
                  "  number density: %r m^-3" % float(b["density"]),
                  "  initial temperature: %r K" % float(b["temperature"]),
                  "  neutral fraction H: %r" % float(b.get("neutral", 1.0)),
                  "  initial velocity: " + fmt_vec(b.get("velocity", [0, 0, 0]), "m s^-1"),
                  ""]
    return "\n".join(lines)


def boundary_names(case):
    out = {}
    for ax, name in enumerate("xyz"):
        t = "periodic" if case["periodic"][ax] else case.get("boundary", ["reflective"] * 3)[ax]
        out["boundary %s high" % name] = t
        out["boundary %s low" % name] = t
    return out


def rhd_params(case):
    """Parameter tree for --task-based-rhd."""
    pools = case.get("pools", {})
    sim = {
        "total time": "%r s" % float(case["total_time"]),
        "snapshot time": "%r s" % float(case.get("snapshot_time", -1.)),
        "do radiation": bool(case.get("radiation", False)),
        "number of buffers": pools.get("buffers", 2000),
        "queue size per thread": pools.get("queue", 2000),
        "shared queue size": pools.get("shared_queue", 4000),
        "number of tasks": pools.get("tasks", 20000),
        "random seed": case.get("seed", 42),
        "number of photons": case.get("photons", 1000),
        "number of iterations": case.get("iterations", 1),
        "CFL": "%r" % float(case.get("cfl", 0.2)),
        "diffuse field": bool(case.get("diffuse", False)),
        "source copy level": case.get("copy_level", 0),
    }
    if case.get("max_dt") is not None:
        sim["maximum timestep"] = "%r s" % float(case["max_dt"])
    if case.get("min_dt") is not None:
        sim["minimum timestep"] = "%r s" % float(case["min_dt"])
    if case.get("use_mask"):
        sim["use mask"] = True
    if case.get("gravity"):
        sim["external gravity"] = True
    if case.get("turbulence"):
        sim["turbulent forcing"] = True
    p = {
        "SimulationBox": {
            "anchor": fmt_vec(case["anchor"], "m"),
            "sides": fmt_vec(case["sides"], "m"),
            "periodicity": "[" + ", ".join("true" if x else "false" for x in case["periodic"]) + "]",
        },
        "DensityGrid": {"type": "Cartesian",
                        "number of cells": "[%d, %d, %d]" % tuple(case["ncell"])},
        "DensitySubGridCreator": {"number of subgrids": "[%d, %d, %d]" % tuple(case["nsub"]),
                                  "periodicity": "[" + ", ".join("true" if x else "false" for x in case["periodic"]) + "]"},
        "DensityFunction": {"type": "BlockSyntax", "filename": "blocks.yml"},
        "DensityGridWriter": {"type": "Gadget", "padding": 3, "prefix": "snap_"},
        "Hydro": {"polytropic index": "%r" % float(case.get("gamma", 5. / 3.)),
                  "radiative heating": bool(case.get("radiative_heating", False)),
                  "radiative cooling": False},
        "HydroBoundaryManager": boundary_names(case),
        "TaskBasedRadiationHydrodynamicsSimulation": sim,
        "PhotonSourceDistribution": case.get("source", {
            "type": "SingleStar", "luminosity": "1.e+46 s^-1",
            "position": fmt_vec([case["anchor"][i] + 0.5 * case["sides"][i] for i in range(3)], "m")}),
        "PhotonSourceSpectrum": {"type": "Monochromatic", "frequency": "3.28847e+15 Hz"},
        "CrossSections": FIXED_XS,
        "RecombinationRates": FIXED_REC,
        "TemperatureCalculator": {"do temperature calculation": False},
        "RestartManager": {"path": ".",
                           "output interval": "%r s" % float(case.get("restart_interval", 1e30)),
                           "maximum number of backups": case.get("backups", 1)},
    }
    for k, v in case.get("extra", {}).items():
        p.setdefault(k, {}).update(v) if isinstance(v, dict) else p.__setitem__(k, v)
    return p


def write_case(workdir, case, params=None):
    os.makedirs(workdir, exist_ok=True)
    if params is None:
        params = rhd_params(case)
    with open(os.path.join(workdir, "params.yml"), "w") as f:
        f.write(yaml_dump(params) + "\n")
    if "blocks" in case:
        with open(os.path.join(workdir, "blocks.yml"), "w") as f:
            f.write(blocks_yaml(case["blocks"]) + "\n")
    for name, text in case.get("files", {}).items():
        with open(os.path.join(workdir, name), "w") as f:
            f.write(text)


def run(workdir, args, env_extra=None, timeout=300, exe=None, prefix=None, cpu_limit=None):
    """Run the executable in workdir.  Returns dict(rc, out, wall, timeout, cpu_exceeded).

    cpu_limit (seconds of process CPU time, all threads together) is the
    load-independent way to detect a run that never finishes: the code busy-waits
    on its locks and queues, so a hung run burns CPU at (threads x wall) while a
    healthy tiny run needs a few CPU seconds however loaded the machine is.
    `timeout` (wall clock) stays as a generous fallback; hitting it WITHOUT
    exhausting the CPU budget is inconclusive, not a failure."""
    env = dict(os.environ)
    for k in list(env):
        if k.startswith("CMI_VERIF"):
            del env[k]
    env["OMP_NUM_THREADS"] = "1"
    if env_extra:
        env.update({k: str(v) for k, v in env_extra.items()})
    cmd = (prefix or []) + [exe or EXE] + list(args)
    t0 = time.time()

    def limits():
        if cpu_limit:
            import resource
            resource.setrlimit(resource.RLIMIT_CPU, (int(cpu_limit), int(cpu_limit) + 5))

    import resource as _res
    ru0 = _res.getrusage(_res.RUSAGE_CHILDREN)
    try:
        p = subprocess.run(cmd, cwd=workdir, env=env, stdout=subprocess.PIPE,
                           stderr=subprocess.STDOUT, timeout=timeout, preexec_fn=limits)
        out = p.stdout.decode("utf-8", "replace")
        cpu = p.returncode in (-24, -9) and bool(cpu_limit)  # SIGXCPU (then SIGKILL)
        ru1 = _res.getrusage(_res.RUSAGE_CHILDREN)
        return {"rc": p.returncode, "out": out, "wall": time.time() - t0, "timeout": False,
                "cpu_exceeded": cpu,
                "cpu_s": (ru1.ru_utime + ru1.ru_stime) - (ru0.ru_utime + ru0.ru_stime)}
    except subprocess.TimeoutExpired as e:
        out = (e.stdout or b"").decode("utf-8", "replace")
        return {"rc": None, "out": out, "wall": time.time() - t0, "timeout": True,
                "cpu_exceeded": False}


def parse_kv_lines(path):
    """Parse 'k=v k=v ...' lines (hook records) into dicts."""
    recs = []
    if not os.path.exists(path):
        return recs
    with open(path) as f:
        for line in f:
            d = {}
            for tok in line.split():
                if "=" in tok:
                    k, v = tok.split("=", 1)
                    d[k] = v
            if d:
                recs.append(d)
    return recs


def hexf(s):
    return float.fromhex(s)


def fresh_dir(base, name):
    d = os.path.join(base, name)
    shutil.rmtree(d, ignore_errors=True)
    os.makedirs(d)
    return d
