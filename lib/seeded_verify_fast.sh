#!/bin/bash
# Like seeded_verify.sh, but re-uses an already built scratch clone (pinned
# tests built on the unchanged source) instead of building one from scratch.
#   lib/seeded_verify_fast.sh <PID> <dir with patch.diff, demo, build_and_run.txt, meta.json> <base clone>
# 1. base clone (unchanged): demo must PASS;  2. + patch: pinned tests (incremental) must pass,
# demo must FAIL;  3. patch reverted;  4. lib/mutcheck.sh <PID> patch.diff -> caught / missed.
# Results are appended to <dir>/verify.log (same format as seeded_verify.sh).
if [ "$1" = "--append" ]; then
  PID="$2"; D="$(readlink -f "$3")"
  echo "== our check against the patched tree" >> "$D/verify.log"
  grep -E "VIOLATION|property=$PID tier|INCONCLUSIVE|patch does not|^  " "$4" | cut -c1-300 | head -8 | tee -a "$D/verify.log"
  exit 0
fi
PID="$1"; D="$(readlink -f "$2")"; C="$(readlink -f "$3")"
HERE="$(cd "$(dirname "$0")/.." && pwd)"
RUNP="${RUN_PINNED:-/var/tmp/run_pinned_nj.sh}"
LOG="$D/verify.log"; : > "$LOG"
git -C "$C" checkout -q -- . || exit 2
echo "== pinned tests + demo on the UNCHANGED clone" | tee -a "$LOG"
"$RUNP" "$C" 2>&1 | tail -3 | tee -a "$LOG"
( cd "$D" && REPO_DIR="$C" bash -c "$(cat build_and_run.txt)" ) > "$D/demo_unchanged.out" 2>&1; echo "demo exit (unchanged) = $?" | tee -a "$LOG"
echo "== apply patch" | tee -a "$LOG"
if ! git -C "$C" apply "$D/patch.diff"; then echo "PATCH DOES NOT APPLY" | tee -a "$LOG"; exit 3; fi
"$RUNP" "$C" 2>&1 | tail -3 | tee -a "$LOG"
( cd "$D" && REPO_DIR="$C" bash -c "$(cat build_and_run.txt)" ) > "$D/demo_changed.out" 2>&1; echo "demo exit (changed) = $?" | tee -a "$LOG"
tail -2 "$D/demo_changed.out" | tee -a "$LOG"
git -C "$C" checkout -q -- .
# SKIP_MUTCHECK=1: the check is run separately (in parallel); its filtered output is
# appended to verify.log afterwards with lib/seeded_verify_fast.sh --append <PID> <dir> <mutcheck output>
[ -n "$SKIP_MUTCHECK" ] && exit 0
echo "== our check against the patched tree" | tee -a "$LOG"
"$HERE/lib/mutcheck.sh" "$PID" "$D/patch.diff" 2>&1 | grep -E "VIOLATION|property=$PID tier|INCONCLUSIVE|patch does not|^  " | cut -c1-300 | head -8 | tee -a "$LOG"
