#!/bin/bash
# Run a check against a scratch copy of /repo with a patch applied (sensitivity
# testing).  /repo and /verif/build are not touched.
#   lib/mutcheck.sh <PID> <patch.diff> [extra check args...]
# Prints the check's output; exit status is the check's.
PID="$1"; PATCH="$(readlink -f "$2")"; shift 2
HERE="$(cd "$(dirname "$0")/.." && pwd)"
S=/var/tmp/verif-scratch-$$-$RANDOM
mkdir -p "$S/build"
cp -a /repo/src "$S/src"
ln -s /repo/data "$S/data"; ln -s /repo/test "$S/test"
if ! (cd "$S" && patch -p1 --no-backup-if-mismatch < "$PATCH" >/dev/null); then
  echo "mutcheck: patch does not apply"; rm -rf "$S"; exit 3
fi
# reuse the objects of the main build where the patch does not invalidate them
if [ -d "$HERE/build/obj" ]; then
  mkdir -p "$S/build/obj"
  # harness-only checks need the 'thr' objects; executable-driven ones also 'plain' (and 'asan' for C12)
  VARS="thr h"
  grep -q '"py"' "$HERE/registry/$PID.json" 2>/dev/null && VARS="$VARS plain"
  grep -q 'CMacIonize_asan' "$HERE/registry/$PID.json" 2>/dev/null && VARS="$VARS asan"
  for v in $VARS; do [ -d "$HERE/build/obj/$v" ] && cp -a "$HERE/build/obj/$v" "$S/build/obj/$v"; done
  [ -d "$HERE/build/gen" ] && cp -a "$HERE/build/gen" "$S/build/gen"
  [ -d "$HERE/build/lib" ] && cp -a "$HERE/build/lib" "$S/build/lib"
  find "$S/build/obj" -name '*.d' -print0 | xargs -0 sed -i "s|/repo/src/|$S/src/|g; s|$HERE/build/|$S/build/|g"
fi
VERIF_REPO="$S" VERIF_BUILD="$S/build" "$HERE/check" "$PID" "$@"
rc=$?
if [ -n "$MUTCHECK_KEEP" ]; then echo "scratch kept: $S"; else rm -rf "$S"; fi
exit $rc
