#!/usr/bin/env python3
"""Regenerate seeded/RESULTS.md and the lead_verification block of every
seeded/<id>/meta.json from the verify.log files written by lib/seeded_verify.sh
(plus the "== re-run ..." sections appended after a check was strengthened)."""
import json
import os
import re
import sys

ROOT = os.path.dirname(os.path.dirname(os.path.abspath(__file__)))
SEEDED = os.path.join(ROOT, "seeded")


def parse(log):
    parts = re.split(r"(?m)^== re-run", log)
    first, reruns = parts[0], parts[1:]
    out = {}
    m = re.findall(r"(\d+)% tests passed, (\d+) tests failed out of (\d+)", first)
    out["pinned_tests_unchanged"] = "%s%% of %s" % (m[0][0], m[0][2]) if m else "?"
    out["pinned_tests_with_patch"] = "%s%% of %s" % (m[1][0], m[1][2]) if len(m) > 1 else "?"
    m = re.search(r"demo exit \(unchanged\) = (\S+)", first)
    out["demo_exit_unchanged"] = m.group(1) if m else "?"
    m = re.search(r"demo exit \(changed\) = (\S+)", first)
    out["demo_exit_changed"] = m.group(1) if m else "?"
    own = first.split("== our check against the patched tree")[-1] if "== our check" in first else ""

    def msgs(text):
        res = []
        lines = text.splitlines()
        for i, l in enumerate(lines):
            if l.startswith("VIOLATION") and i > 0 and lines[i - 1].startswith("  "):
                res.append(lines[i - 1].strip()[:400])
            elif l.startswith("VIOLATION") and "REPLAY-FAIL" in "".join(lines[max(0, i - 2):i]):
                res.append(lines[i - 1].strip()[:400])
        return res

    caught_first = bool(re.search(r"(?m)^VIOLATION property=", own))
    caught_later = any("VIOLATION property=" in r for r in reruns)
    if caught_first:
        out["check_result"] = "caught"
        out["check_first_messages"] = msgs(own)[:2]
    elif caught_later and all("thorough tier" in r.splitlines()[0] for r in reruns if "VIOLATION" in r):
        out["check_result"] = "missed by the quick tier, caught by the thorough tier"
        out["check_first_messages"] = [("re-run" + r.splitlines()[0]).strip()[:400] for r in reruns if "VIOLATION" in r][:1]
    elif caught_later:
        out["check_result"] = "caught after strengthening"
        mm = []
        for r in reruns:
            mm += msgs(r)
        if not mm:
            mm = [("re-run" + r.splitlines()[0]).strip()[:400] for r in reruns if "VIOLATION" in r]
        out["check_first_messages"] = mm[:2]
    elif "INCONCLUSIVE" in own:
        out["check_result"] = "INCONCLUSIVE"
        out["check_first_messages"] = []
    else:
        out["check_result"] = "MISSED"
        out["check_first_messages"] = []
    return out


def main():
    rows = []
    results = []
    for d in sorted(os.listdir(SEEDED)):
        dd = os.path.join(SEEDED, d)
        lf = os.path.join(dd, "verify.log")
        mf = os.path.join(dd, "meta.json")
        if not os.path.isdir(dd) or not os.path.exists(lf) or not os.path.exists(mf):
            continue
        with open(lf, errors="replace") as f:
            lv = parse(f.read())
        pid = d.split("-")[0]
        lv["check_command"] = "lib/mutcheck.sh %s seeded/%s/patch.diff" % (pid, d)
        with open(mf) as f:
            meta = json.load(f)
        meta["lead_verification"] = lv
        results.append(lv["check_result"])
        with open(mf, "w") as f:
            json.dump(meta, f, indent=1)
            f.write("\n")
        esc = lambda s: str(s).replace("|", "\\|").replace("\n", " ")
        msg = lv["check_first_messages"][0] if lv["check_first_messages"] else ""
        rows.append("| %s | %s | %s | %s | %s | %s |" % (
            d, pid, esc(meta.get("title", ""))[:220], esc(meta.get("needs_to_manifest", ""))[:200],
            lv["check_result"], esc(msg)[:160]))
    head = """# Seeded property-breaking changes (written by independent sub-agents without access to /verif)

Each directory: patch.diff, demonstration, meta.json (incl. lead_verification), verify.log.
Verified per change by `lib/seeded_verify.sh`: the 55 pinned tests pass with the patch; the demonstration passes on the unchanged tree and fails with the patch; result of `lib/mutcheck.sh <id> patch.diff`.
"caught after strengthening" = the first run of the check missed it (or ended inconclusive); the check was then extended (see DESIGN.md 9.3) and catches it now.
-A/-B = wave 1, -C/-D = wave 2 (the wave-2 agents were told what wave 1 had changed and asked for other sites and clauses).
Regenerate with `python3 lib/seeded_results.py`.

| dir | property | change | needs | our check | message |
|---|---|---|---|---|---|
"""
    with open(os.path.join(SEEDED, "RESULTS.md"), "w") as f:
        f.write(head + "\n".join(rows) + "\n")
    from collections import Counter
    print(len(rows), dict(Counter(results)))
    return 0


if __name__ == "__main__":
    sys.exit(main())
