# Build of CMacIonize (from /repo's current working tree) and of the harnesses.
# Never touches /repo/_build.  Driven by lib/build.py (which holds a flock).
REPO ?= /repo
SRC  := $(REPO)/src
B    ?= build
GEN  := $(B)/gen

HDF5_INC := -I/usr/include/hdf5/serial
HDF5_LIB := -L/usr/lib/x86_64-linux-gnu/hdf5/serial -lhdf5

COMMON := -std=gnu++14 -g -fopenmp -DCMI_VERIF -I$(GEN) -I$(SRC) $(HDF5_INC) -w
CXX_plain := g++
CXX_thr   := g++
CXX_asan  := g++
FLAGS_plain := $(COMMON) -O1
FLAGS_thr   := $(COMMON) -O1 -include harness/common/verif_error.hpp
FLAGS_asan  := $(COMMON) -O1 -fsanitize=address,undefined -fno-sanitize-recover=undefined -fno-omit-frame-pointer

ALLSRC := $(notdir $(wildcard $(SRC)/*.cpp))
LIBSRC := $(filter-out CMacIonize.cpp CMILibrary.cpp SPHArrayInterface.cpp,$(ALLSRC))
GENSRC := CompilerInfo.cpp ConfigurationInfo.cpp

define VARIANT
OBJ_$(1) := $$(patsubst %.cpp,$(B)/obj/$(1)/%.o,$(LIBSRC)) $$(patsubst %.cpp,$(B)/obj/$(1)/gen_%.o,$(GENSRC))
$(B)/obj/$(1)/%.o: $(SRC)/%.cpp | $(B)/obj/$(1)
	$$(CXX_$(1)) $$(FLAGS_$(1)) -MMD -MP -c $$< -o $$@
$(B)/obj/$(1)/gen_%.o: $(GEN)/%.cpp | $(B)/obj/$(1)
	$$(CXX_$(1)) $$(FLAGS_$(1)) -MMD -MP -c $$< -o $$@
$(B)/obj/$(1):
	mkdir -p $$@
$(B)/lib/libcmi_$(1).a: $$(OBJ_$(1)) | $(B)/lib
	rm -f $$@ && ar rcs $$@ $$(OBJ_$(1))
-include $$(wildcard $(B)/obj/$(1)/*.d)
endef
$(eval $(call VARIANT,plain))
$(eval $(call VARIANT,thr))
$(eval $(call VARIANT,asan))

$(B)/lib $(B)/bin:
	mkdir -p $@

# the real executable (abort()ing cmac_error), plain and sanitized
$(B)/obj/plain/CMacIonize.o $(B)/obj/asan/CMacIonize.o: | $(B)/obj/plain $(B)/obj/asan
$(B)/bin/CMacIonize: $(B)/obj/plain/CMacIonize.o $(B)/lib/libcmi_plain.a | $(B)/bin
	g++ -fopenmp -o $@ $< $(B)/lib/libcmi_plain.a $(HDF5_LIB)
$(B)/bin/CMacIonize_asan: $(B)/obj/asan/CMacIonize.o $(B)/lib/libcmi_asan.a | $(B)/bin
	g++ -fopenmp -fsanitize=address,undefined -o $@ $< $(B)/lib/libcmi_asan.a $(HDF5_LIB)

# rapidcheck harnesses: harness/<name>.cpp -> build/bin/<name>
HARNESS_FLAGS := $(FLAGS_thr) -Iharness/common -I$(REPO)/test
$(B)/obj/h:
	mkdir -p $@
$(B)/obj/h/%.o: harness/%.cpp | $(B)/obj/h
	g++ $(HARNESS_FLAGS) $(EXTRA_$*) -MMD -MP -c $< -o $@
$(B)/bin/%: $(B)/obj/h/%.o $(B)/lib/libcmi_thr.a | $(B)/bin
	g++ -fopenmp -o $@ $< $(B)/lib/libcmi_thr.a $(HDF5_LIB) -lrapidcheck -lgmpxx -lgmp -lpthread
-include $(wildcard $(B)/obj/h/*.d)

# libFuzzer targets: harness/fuzz/<name>.cpp -> build/bin/fuzz_<name> (header-only use of /repo/src)
FUZZ_FLAGS := -std=gnu++17 -g -O1 -fsanitize=fuzzer,address,undefined -fno-sanitize-recover=undefined \
  -DCMI_VERIF -I$(GEN) -I$(SRC) $(HDF5_INC) -Iharness/common -include harness/common/verif_error.hpp -w
$(B)/bin/fuzz_%: harness/fuzz/%.cpp $(wildcard harness/common/*.hpp) $(wildcard $(SRC)/*.hpp) | $(B)/bin
	clang++ $(FUZZ_FLAGS) -o $@ $<

.SECONDARY:
.PHONY: gen
