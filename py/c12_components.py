#!/usr/local/bin/python3-vt
"""C12 (component coverage) - complete runs end normally without touching
invalid or uninitialised memory, for the components that c12_runs.py never
switches on.

Hypothesis draws a whole-run configuration of the real executable
(`--task-based`, `--task-based-rhd` with radiation, and stop + `--restart`)
out of the component lists of the *Factory.hpp classes: photon source
distributions (UniformRandom, DiscPatch, SingleSupernova, Caproni; with and
without source log), spectra (Planck, Uniform, Masked, FaucherGiguere), continuous sources (ExtendedDisc, SpiralGalaxy), Verner /
Bimodal cross sections, Verner recombination rates, the temperature
calculation with abundances, density functions (Homogeneous, DiscPatch,
SpiralGalaxy, BondiProfile, CoredDMProfile, DiscIC), the AsciiFile writer,
Bondi boundaries, DiscPatch / CoredDMProfile potentials, the BlockSyntax hydro
mask, radiative cooling / heating, stellar feedback.

Every configuration is valid by construction (sources inside the box, data
files present, ...): the code must run it to the end.  Oracle: exit status 0,
an output file of the right kind, a clean valgrind memcheck (1/3) or
ASan+UBSan (2/3) report - exactly the classification of c12_runs.check_run.
"""
import os
import sys

from hypothesis import strategies as st

import cmirun
import pbt
import c12_runs

CS = 4000.
MH = 1.6726e-27
GNEWTON = 6.674e-11
# what c12_runs.py already uses (everything else counts as a new component)
OLD = {"src-SingleStar", "src-AsciiFile", "spec-Monochromatic", "xs-FixedValue", "rec-FixedValue",
       "dens-BlockSyntax", "writer-Gadget", "cont-Isotropic", "cont-DistantStar", "cont-Planar",
       "cspec-Monochromatic", "diffuse-FixedValue", "diffuse-Physical", "mask-RescaledIC",
       "pot-PointMass", "every-iteration-output"}


def vec(v, unit="m"):
    return cmirun.fmt_vec(v, unit)


def spectrum(draw, role_continuous):
    """Block for PhotonSourceSpectrum / ContinuousPhotonSourceSpectrum."""
    # (CastelliKurucz, Pegase3, PopStar, WMBasic: data files missing in this tree)
    kinds = ["Planck", "Planck", "Masked", "Masked", "Monochromatic"]
    kinds += ["FaucherGiguere", "FaucherGiguere"] if role_continuous else ["Uniform", "Uniform"]
    kind = draw(st.sampled_from(kinds))
    b = {"type": kind}
    if kind in ("Planck", "Masked"):
        b["temperature"] = "%r K" % draw(st.sampled_from([2.0e4, 4.0e4, 1.0e5]))
        if role_continuous:
            b["ionizing flux"] = "1.e11 m^-2 s^-1"
    if kind == "Masked":
        b["masked type"] = "Planck"
        b["mask number of bins"] = draw(st.sampled_from([50, 100, 1000]))
        b["mask number of samples"] = draw(st.sampled_from([5000, 20000]))
        b["PhotonSourceSpectrumMask"] = {"type": "Linear"}
    if kind == "CastelliKurucz":
        b["temperature"] = "%r K" % draw(st.sampled_from([4.0e4, 3.5e4, 4.5e4]))
        b["surface gravity"] = "317. m s^-2"
        b["metallicity"] = 0.02
    if kind == "FaucherGiguere":
        b["redshift"] = draw(st.sampled_from([0., 1.02, 3.0, 7.0]))
    if kind == "Monochromatic":
        b["frequency"] = "3.28847e+15 Hz"
        if role_continuous:
            b["total flux"] = "1.e11 m^-2 s^-1"
    return b


def source_distribution(draw, geo, dt, rhd):
    """PhotonSourceDistribution block; every source position lies inside the
    simulation box by construction."""
    a, s = geo["anchor"], geo["sides"]
    kinds = ["UniformRandom", "DiscPatch", "SingleSupernova", "SingleStar"]
    if min(s) >= 1e20:
        kinds = ["Caproni", "Caproni", "Caproni", "UniformRandom", "DiscPatch", "SingleSupernova"]
    kind = draw(st.sampled_from(kinds))
    log = draw(st.booleans())
    seed = draw(st.integers(0, 100000))
    ui = dt * draw(st.sampled_from([0.7, 0.7, 1.0, 2.5]))
    t0 = dt * draw(st.sampled_from([0., 0., 2.5, 10.]))
    b = {"type": kind}
    files = {}
    labels = ["src-" + kind]
    if kind == "UniformRandom":
        lo = draw(st.sampled_from([0.05, 0.3]))
        b.update({"source lifetime": "%r s" % (ui * draw(st.sampled_from([0.6, 1.5, 3., 100.]))),
                  "source luminosity": "1.e48 s^-1",
                  "number of sources": draw(st.integers(0 if rhd else 1, 5)),
                  "box anchor": vec([a[i] + lo * s[i] for i in range(3)]),
                  "box sides": vec([(1. - 2. * lo) * s[i] for i in range(3)]),
                  "random seed": seed, "update interval": "%r s" % ui, "starting time": "%r s" % t0,
                  "output sources": log})
    elif kind == "DiscPatch":
        # z is Gaussian: |z - origin| <= 8.6 scale heights (Box-Muller on 53 bit
        # uniforms), so a scale height of 1/25 of the box keeps every source inside
        b.update({"source lifetime": "%r s" % (ui * draw(st.sampled_from([0.6, 1.5, 3., 100.]))),
                  "source luminosity": "1.e48 s^-1",
                  "average number of sources": draw(st.integers(0 if rhd else 2, 6)),
                  "anchor x": "%r m" % (a[0] + 0.1 * s[0]), "sides x": "%r m" % (0.8 * s[0]),
                  "anchor y": "%r m" % (a[1] + 0.1 * s[1]), "sides y": "%r m" % (0.8 * s[1]),
                  "origin z": "%r m" % (a[2] + s[2] * draw(st.sampled_from([0.5, 0.45, 0.6]))),
                  "scaleheight z": "%r m" % (s[2] / 25.),
                  "random seed": seed, "update interval": "%r s" % ui, "starting time": "%r s" % t0,
                  "output sources": log})
    elif kind == "SingleSupernova":
        fr = [draw(st.sampled_from([0.5, 0.3, 0.77, 0.25])) for _ in range(3)]
        cellmass = geo["n0"] * MH * (s[0] / 8.) ** 3
        b.update({"position": vec([a[i] + fr[i] * s[i] for i in range(3)]),
                  "lifetime": "%r s" % (dt * draw(st.sampled_from([0.5, 1.5, 2.5, 1000.]))),
                  "luminosity": "%s s^-1" % draw(st.sampled_from(["1.e48", "1.e48", "1.e49"] + (["0."] if rhd else []))),
                  "energy": "%r J" % (0.5 * cellmass * (draw(st.sampled_from([10., 50.])) * CS) ** 2)})
        log = False
    elif kind == "Caproni":
        # |r| <= 5.7e18 + 8.6 * 3.086e18 = 3.3e19 m < half of the box
        b.update({"number function norm": draw(st.sampled_from([0.1, 0.15, 0.2] + ([0.03, 0.01] if rhd else []))),
                  "UV luminosity norm": draw(st.sampled_from([1., 3.])),
                  "SN mass limit": "8. Msol", "OB mass limit": "%s Msol" % draw(st.sampled_from(["20.", "12.", "40."])),
                  "stellar mass limit": "100. Msol", "IMF slope": -2.3,
                  "random seed": seed, "update interval": "%r s" % min(ui, 9.0e13),
                  "starting time": "%r s" % min(t0, 6.0e16), "boost factor": draw(st.sampled_from([1., 0.1])),
                  "output sources": log})
    else:
        b.update({"luminosity": "1.e48 s^-1",
                  "position": vec([a[i] + 0.5 * s[i] for i in range(3)])})
        log = False
    if log:
        labels.append("src-output-sources")
    return b, files, labels


def density_function(draw, geo, rhd):
    a, s, n0 = geo["anchor"], geo["sides"], geo["n0"]
    L = min(s)
    # SpiralGalaxy sets the temperature to 0 K (meant for pure photoionization
    # runs, where the temperature is computed): not a valid hydro initial state
    kind = draw(st.sampled_from(["Homogeneous", "BlockSyntax", "DiscPatch", "BondiProfile", "CoredDMProfile",
                                 "DiscIC"] + ([] if rhd else ["SpiralGalaxy", "SpiralGalaxy"])))
    files = {}
    temp = draw(st.sampled_from([500., 1000., 8000.]))
    if kind == "Homogeneous":
        b = {"type": kind, "density": "%r m^-3" % n0, "temperature": "%r K" % temp,
             "neutral fraction H": draw(st.sampled_from([1.0, 1.e-6, 0.5]))}
    elif kind == "BlockSyntax":
        blocks = [{"origin": [0., 0., 0.], "sides": [4 * x for x in s], "density": n0,
                   "temperature": temp, "velocity": [0.3 * CS, -0.2 * CS, 0.1 * CS]},
                  {"origin": [0.1 * s[0], -0.2 * s[1], 0.15 * s[2]], "sides": [0.4 * x for x in s],
                   "density": 10. * n0, "temperature": 8000., "velocity": [-CS, 0.5 * CS, 0.],
                   "type": draw(st.sampled_from(["cube", "sphere"]))}]
        files["blocks.yml"] = cmirun.blocks_yaml(blocks) + "\n"
        b = {"type": kind, "filename": "blocks.yml"}
    elif kind == "DiscPatch":
        h = 0.3 * s[2]
        b = {"type": kind, "disc z": "%r m" % (0.02 * s[2]),
             "surface density": "%r kg m^-2" % (n0 * MH * 2. * h * 10.), "scale height": "%r m" % h,
             "gas fraction": 0.1, "temperature": "%r K" % temp,
             "neutral fraction": draw(st.sampled_from([1.0, 1.e-6]))}
    elif kind == "SpiralGalaxy":
        b = {"type": kind, "scale length ISM": "%r m" % L, "scale height ISM": "%r m" % (0.3 * s[2]),
             "central density": "%r m^-3" % n0}
    elif kind == "BondiProfile":
        cs = 2031.
        b = {"type": kind, "central mass": "%r kg" % (0.3 * L * 2. * cs * cs / GNEWTON),
             "Bondi density": "%r kg m^-3" % (n0 * MH), "sound speed": "2.031 km s^-1",
             "ionisation radius": "%r m" % (L * draw(st.sampled_from([0., 0., 0.2]))),
             "pressure contrast": 32.,
             "center": vec([0.013 * s[0], -0.007 * s[1], 0.011 * s[2]]),
             "vprof radius": "%r m" % (L * draw(st.sampled_from([0., 0.25]))),
             "vprof velocity": "%r m s^-1" % draw(st.sampled_from([0., 500.])),
             "neutral fraction": draw(st.sampled_from([1.0, 1.e-6]))}
    elif kind == "CoredDMProfile":
        b = {"type": kind, "core radius": "%r m" % (0.3 * L), "maximum circular velocity": "21.1 km s^-1",
             "central density": "%r kg m^-3" % (n0 * MH), "temperature": "%r K" % temp,
             "neutral fraction": draw(st.sampled_from([1.0, 1.e-6])), "polytropic index": 5. / 3.}
    else:  # DiscIC
        cs = 2873.
        b = {"type": kind, "mass": "%r kg" % (0.3 * L * 2. * cs * cs / GNEWTON), "temperature": "%r K" % temp,
             "Bondi density": "%r kg m^-3" % (n0 * MH), "density power": -1.5,
             "Bondi velocity": "2.873 km s^-1", "velocity power": -0.5}
    return b, files, ["dens-" + kind]


def atomic_physics(draw, task_based):
    """CrossSections, RecombinationRates, TemperatureCalculator, abundances."""
    p = {}
    labels = []
    xs = draw(st.sampled_from(["Verner", "Verner", "Bimodal", "FixedValue"]))
    rec = draw(st.sampled_from(["Verner", "Verner", "FixedValue"]))
    if xs == "Verner":
        p["CrossSections"] = {"type": "Verner"}
    elif xs == "Bimodal":
        p["CrossSections"] = {"type": "Bimodal", "frequency limit": "15. eV",
                              "hydrogen_0_low": "6.3e-18 cm^2", "hydrogen_0_high": "2.0e-18 cm^2",
                              "helium_0_high": "5.0e-18 cm^2"}
    else:
        p["CrossSections"] = dict(cmirun.FIXED_XS)
    p["RecombinationRates"] = {"type": "Verner"} if rec == "Verner" else dict(cmirun.FIXED_REC)
    labels += ["xs-" + xs, "rec-" + rec]
    metals = draw(st.sampled_from(["none", "helium", "all", "all"]))
    ab = {"none": {}, "helium": {"He": 0.1},
          "all": {"He": 0.1, "C": 2.2e-4, "N": 4.0e-5, "O": 3.3e-4, "Ne": 5.0e-5, "S": 9.0e-6}}[metals]
    if metals != "none":
        labels.append("abundances-" + metals)
    if task_based:
        if metals != "none" and draw(st.booleans()):
            p["AbundanceModel"] = {"type": "SolarMetallicity",
                                   "metallicity": draw(st.sampled_from([-3.31, -3.0, -4.5, -3.6]))}
            labels.append("abundance-model-SolarMetallicity")
        else:
            p["AbundanceModel"] = dict({"type": "FixedValue"}, **{k: repr(v) for k, v in ab.items()})
    else:
        names = {"He": "helium", "C": "carbon", "N": "nitrogen", "O": "oxygen", "Ne": "neon", "S": "sulphur"}
        if ab:
            p["Abundances"] = {names[k]: repr(v) for k, v in ab.items()}
    tc = xs == "Verner" and rec == "Verner" and draw(st.booleans())
    p["TemperatureCalculator"] = {"do temperature calculation": tc}
    if tc:
        labels.append("temperature-calculation")
        p["TemperatureCalculator"].update({
            "PAH heating factor": draw(st.sampled_from([0., 1.])),
            "cosmic ray heating factor": draw(st.sampled_from([0., 1.e-13])),
            "minimum number of iterations": draw(st.sampled_from([0, 1, 3])),
            "maximum number of iterations": 50})
    return p, labels


def geometry(draw, scale):
    ncell = [draw(st.sampled_from([4, 6, 8])) for _ in range(3)]
    nsub = [draw(st.sampled_from([d for d in (1, 2, 3, 4) if n % d == 0])) for n in ncell]
    periodic = [draw(st.booleans()) and draw(st.booleans()) for _ in range(3)]
    # a box that is periodic in all three directions has no exit for photon
    # packets: with (nearly) ionized gas they travel (nearly) for ever - not a
    # valid configuration (whole_runs covers the triply periodic box with
    # neutral gas)
    if all(periodic):
        periodic[draw(st.integers(0, 2))] = False
    if scale >= 1e20:
        sides = [scale * draw(st.sampled_from([1.0, 1.0, 2.0])) for _ in range(3)]
    else:
        sides = [scale * draw(st.sampled_from([1.0, 1.0, 0.5, 2.0])) for _ in range(3)]
    anchor = [-0.5 * x for x in sides]
    # tau = n sigma L = 6.3 for n = 1e22 / L
    n0 = draw(st.sampled_from([1.e22, 1.e23, 1.e25])) / scale
    return {"ncell": ncell, "nsub": nsub, "periodic": periodic, "sides": sides, "anchor": anchor, "n0": n0}


@st.composite
def cases(draw):
    mode = draw(st.sampled_from(["task-based", "task-based", "rhd-radiation", "rhd-radiation", "rhd-restart",
                                 "rhd-restart"]))
    rhd = mode != "task-based"
    threads = draw(st.sampled_from([1, 2, 3, 4]))
    scale = draw(st.sampled_from([1.0e17, 3.0e18, 1.0e20, 1.0e20]))
    geo = geometry(draw, scale)
    a, s = geo["anchor"], geo["sides"]
    dt = 0.05 * min(s[i] / geo["ncell"][i] for i in range(3)) / (3. * CS)
    labels = []
    files = {}
    flags = []
    pbool = "[" + ", ".join("true" if x else "false" for x in geo["periodic"]) + "]"
    pools = {"number of buffers": 3000, "queue size per thread": 3000, "shared queue size": 3000,
             "number of tasks": 8000}
    p = {"SimulationBox": {"anchor": vec(a), "sides": vec(s), "periodicity": pbool},
         "DensityGrid": {"type": "Cartesian", "number of cells": "[%d, %d, %d]" % tuple(geo["ncell"])},
         "DensitySubGridCreator": {"number of subgrids": "[%d, %d, %d]" % tuple(geo["nsub"]),
                                   "periodicity": pbool}}
    src, f, l = source_distribution(draw, geo, dt, rhd)
    p["PhotonSourceDistribution"] = src
    files.update(f)
    labels += l
    p["PhotonSourceSpectrum"] = spectrum(draw, False)
    labels.append("spec-" + p["PhotonSourceSpectrum"]["type"])
    dens, f, l = density_function(draw, geo, rhd)
    p["DensityFunction"] = dens
    files.update(f)
    labels += l
    ap, l = atomic_physics(draw, not rhd)
    p.update(ap)
    labels += l
    diffuse = draw(st.sampled_from(["None", "None", "FixedValue", "Physical"]))
    photons = draw(st.sampled_from([1, 150, 200, 777, 2000]))
    iterations = draw(st.integers(1, 2))
    sim = dict(pools)
    sim.update({"random seed": draw(st.integers(1, 10 ** 6)), "number of photons": photons,
                "number of iterations": iterations, "diffuse field": diffuse != "None",
                "source copy level": draw(st.sampled_from([0, 0, 1, 2]))})
    if diffuse != "None":
        labels.append("diffuse-" + diffuse)
        p["DiffuseReemissionHandler"] = {"type": diffuse}
        if diffuse == "FixedValue":
            p["DiffuseReemissionHandler"].update({"reemission probability": "0.364",
                                                  "reemission frequency": "3.4e15 Hz"})
    writer = "Gadget"
    nsteps = 0
    if not rhd:
        writer = draw(st.sampled_from(["Gadget", "AsciiFile", "AsciiFile"]))
        sim["output folder"] = "."
        p["TaskBasedIonizationSimulation"] = sim
        ckinds = ["none", "none", "none", "ExtendedDisc", "ExtendedDisc", "Isotropic"]
        if scale >= 1e20:
            ckinds += ["SpiralGalaxy", "SpiralGalaxy"]
        ckind = draw(st.sampled_from(ckinds))
        if ckind != "none":
            labels.append("cont-" + ckind)
            c = {"type": ckind}
            if ckind == "ExtendedDisc":
                ax = draw(st.sampled_from(["x", "y", "z"]))
                i = "xyz".index(ax)
                c.update({"normal axis": ax, "intercept": "%r m" % (a[i] + 0.45 * s[i]),
                          "scale height": "%r m" % (0.2 * s[i]), "luminosity": "1.e48 s^-1"})
            if ckind == "SpiralGalaxy":
                c.update({"scale length stars": "5. kpc", "scale height stars": "0.6 kpc",
                          "bulge over total ratio": draw(st.sampled_from([0.2, 0., 0.6]))})
            p["ContinuousPhotonSource"] = c
            p["ContinuousPhotonSourceSpectrum"] = spectrum(draw, True)
            labels.append("cspec-" + p["ContinuousPhotonSourceSpectrum"]["type"])
        for fl in ("--every-iteration-output",):
            if draw(st.booleans()):
                flags.append(fl)
                labels.append("every-iteration-output")
    else:
        nsteps = draw(st.integers(2, 3))
        gamma = draw(st.sampled_from([5. / 3., 1.0001]))
        sim.update({"total time": "%r s" % (dt * 64), "snapshot time": "%r s" % (dt * draw(st.sampled_from([1., 64.]))),
                    "do radiation": True, "CFL": "0.2", "maximum timestep": "%r s" % dt})
        p["Hydro"] = {"polytropic index": repr(gamma), "radiative heating": draw(st.booleans()),
                      "radiative cooling": False}
        if p["Hydro"]["radiative heating"]:
            labels.append("hydro-radiative-heating")
        if draw(st.booleans()) and draw(st.booleans()):
            sim["do radiative cooling"] = True
            labels.append("rhd-radiative-cooling")
        if draw(st.booleans()):
            sim["do stellar feedback"] = True
            labels.append("rhd-stellar-feedback")
        if draw(st.booleans()) and draw(st.booleans()):
            sim["maximum neutral fraction"] = 0.5
            labels.append("rhd-maximum-neutral-fraction")
        if draw(st.booleans()) and draw(st.booleans()):
            sim["radiation time"] = "%r s" % (2. * dt)
            labels.append("rhd-radiation-time")
        bondi = draw(st.booleans()) and draw(st.booleans())
        hb = {}
        for ax, name in enumerate("xyz"):
            if geo["periodic"][ax]:
                t = "periodic"
            else:
                t = draw(st.sampled_from(["reflective", "inflow", "outflow"] + (["bondi", "bondi", "bondi"] if bondi else [])))
            hb["boundary %s high" % name] = t
            hb["boundary %s low" % name] = t
        p["HydroBoundaryManager"] = hb
        if "bondi" in hb.values():
            labels.append("boundary-bondi")
            cs = 2031.
            p["BondiProfile"] = {"central mass": "%r kg" % (0.3 * min(s) * 2. * cs * cs / GNEWTON),
                                 "Bondi density": "%r kg m^-3" % (geo["n0"] * MH),
                                 "sound speed": "2.031 km s^-1", "ionisation radius": "0. m",
                                 "pressure contrast": 32.,
                                 "center": vec([0.013 * s[0], -0.007 * s[1], 0.011 * s[2]]),
                                 "vprof radius": "0. m", "vprof velocity": "0. m s^-1"}
        pot = draw(st.sampled_from(["none", "none", "DiscPatch", "CoredDMProfile"]))
        if pot != "none":
            sim["external gravity"] = True
            labels.append("pot-" + pot)
            if pot == "DiscPatch":
                p["ExternalPotential"] = {"type": pot, "disc z": "%r m" % (0.02 * s[2]),
                                          "surface density": "12. Msol pc^-2",
                                          "scale height": "%r m" % (0.2 * s[2])}
            else:
                p["ExternalPotential"] = {"type": pot, "core radius": "%r m" % (0.3 * min(s)),
                                          "maximum circular velocity": "21.1 km s^-1"}
        # (HydroMask::write_restart_file: "Restarting not supported for this
        # mask" - the BlockSyntax mask is only valid in runs that never dump)
        if mode == "rhd-radiation" and draw(st.booleans()):
            sim["use mask"] = True
            labels.append("mask-BlockSyntax")
            mb = [{"origin": [0.02 * s[0], 0., 0.], "sides": [0.45 * x for x in s], "density": 5. * geo["n0"],
                   "temperature": draw(st.sampled_from([500., 12000.])), "velocity": [0., 0., 0.],
                   "type": draw(st.sampled_from(["cube", "sphere"]))}]
            files["mask.yml"] = cmirun.blocks_yaml(mb) + "\n"
            p["HydroMask"] = {"type": "BlockSyntax", "filename": "mask.yml", "polytropic index": repr(gamma),
                              "vprof mass": "%s kg" % draw(st.sampled_from(["0.", "1.e30"]))}
        p["TaskBasedRadiationHydrodynamicsSimulation"] = sim
        p["RestartManager"] = {"path": ".", "output interval": "%s s" % ("0." if mode == "rhd-restart" else "1.e30"),
                               "maximum number of backups": draw(st.sampled_from([0, 1]))}
        if draw(st.booleans()) and draw(st.booleans()):
            flags.append("--every-iteration-output")
            labels.append("every-iteration-output")
    p["DensityGridWriter"] = {"type": writer, "padding": 3, "prefix": "snap_"}
    labels.append("writer-" + writer)
    return {"mode": mode, "threads": threads, "flags": flags, "params": p, "files": files,
            "labels": labels, "nsteps": nsteps, "writer": writer,
            "tool": draw(st.sampled_from(["valgrind", "asan", "asan"]))}


# Deliberate rejections of an input by the code (cmac_error prints
# "file:function():line: Error:" and aborts): such a case would be a generator
# mistake, not a violation.  None is expected; they are reported as
# inconclusive so that they show up without raising a false alarm.
def deliberate_error(out):
    i = out.find(": Error:")
    if i < 0:
        return None
    return out[max(0, i - 120):i + 300].replace("\n", " | ")


def residue_crash(out):
    """Known class caproni_luminosity_residue_without_sources: the running sum
    CaproniPhotonSourceDistribution::_total_source_luminosity keeps a round-off
    residue when the last luminous star dies, get_number_of_sources() is 0, and
    DistributedPhotonSource.hpp:107 indexes the empty `overhead` vector.  Under
    valgrind / ASan the report names DistributedPhotonSource; a plain SIGSEGV is
    attributed to the class only if the log ends where that constructor runs
    (start of the radiation step / of the photon source set-up)."""
    tail = out.strip().split("\n")[-1] if out.strip() else ""
    return ("Updating subgrid copy hierarchy" in tail or "Starting radiation step" in tail or
            "memory allocation stats" in tail or "subgrid copies" in tail)


def check_components(case, workdir):
    r = pbt.Result()
    tool = case["tool"]
    prefix, exe, env, timeout = c12_runs.tool_setup(tool, workdir)
    r.label("tool-" + tool)
    r.label("mode-" + case["mode"])
    for l in case["labels"]:
        r.label("comp-" + l)
    new = [l for l in case["labels"] if l not in OLD]
    cmirun.write_case(workdir, {"files": case["files"]}, case["params"])
    runs = []
    if case["mode"] == "task-based":
        runs.append(["--params", "params.yml", "--task-based", "--threads", str(case["threads"])] + case["flags"])
    else:
        base = ["--params", "params.yml", "--task-based-rhd", "--threads", str(case["threads"])] + case["flags"]
        n = case["nsteps"]
        if case["mode"] == "rhd-restart":
            k = max(1, n // 2)
            runs.append(base + ["--number-of-steps", str(k)])
            runs.append(base + ["--number-of-steps", str(n + 1), "--restart", "."])
        else:
            runs.append(base + ["--number-of-steps", str(n)])
    for i, args in enumerate(runs):
        run = cmirun.run(workdir, args, env, timeout=timeout, exe=exe, prefix=prefix, cpu_limit=int(0.75 * timeout))
        if run["timeout"]:
            r.inconclusive = "run %d did not finish within %d s under %s" % (i, timeout, tool)
            return r
        bad = c12_runs.classify_output(run, tool)
        r.schedule_dependent = case["threads"] > 1
        caproni = case["params"]["PhotonSourceDistribution"]["type"] == "Caproni"
        if caproni and ((bad and "DistributedPhotonSource" in bad) or
                        (not bad and run["rc"] in (-11, 139) and residue_crash(run["out"]))):
            # defect caproni_luminosity_residue_without_sources (see residue_crash)
            r.known = "caproni_luminosity_residue_without_sources"
            r.schedule_dependent = False
            return r.fail("run %d (%s): Caproni distribution without luminous star left reports a non-zero total luminosity (round-off residue of the running sum): DistributedPhotonSource indexes an empty vector: %s" % (
                i, " ".join(args[2:]), bad or ("signal, rc %s" % run["rc"])))
        if bad:
            return r.fail("run %d (%s): %s" % (i, " ".join(args[2:]), bad))
        if run["cpu_exceeded"] and run["rc"] == -24:
            return r.fail("run %d (%s) used up its CPU budget (150 s ASan / 300 s valgrind; a normal run needs seconds) without finishing: %s" % (
                i, " ".join(args[2:]), run["out"][-300:].replace("\n", " | ")))
        if run["rc"] == -9:
            r.inconclusive = "run %d was killed (SIGKILL: out of memory on a loaded machine?)" % i
            return r
        if run["rc"] != 0:
            err = deliberate_error(run["out"])
            if err and run["rc"] in (-6, 134, 1):
                r.inconclusive = "GENERATOR: the code rejected the configuration: " + err
                return r
            return r.fail("run %d (%s) exited with status %s: %s" % (
                i, " ".join(args[2:]), run["rc"], run["out"][-700:].replace("\n", " | ")))
    if case["writer"] == "Gadget":
        snaps = [f for f in os.listdir(workdir) if f.startswith("snap_") and f.endswith(".hdf5")]
        if not snaps:
            return r.fail("no snapshot written")
        for f in snaps:
            with open(os.path.join(workdir, f), "rb") as fh:
                if fh.read(8) != b"\x89HDF\r\n\x1a\n":
                    return r.fail("output %s is not an HDF5 file" % f)
    else:
        snaps = [f for f in os.listdir(workdir) if f.startswith("snap_") and f.endswith(".txt")]
        if not snaps:
            return r.fail("no ASCII snapshot written")
        ncell = 1
        for x in case["params"]["DensityGrid"]["number of cells"].strip("[]").split(","):
            ncell *= int(x)
        for f in snaps:
            with open(os.path.join(workdir, f)) as fh:
                lines = fh.read().split("\n")
            if not lines[0].startswith("#") or len([l for l in lines[1:] if l.strip()]) != ncell:
                return r.fail("ASCII snapshot %s does not have one line per cell (%d)" % (f, ncell))
    if "src-output-sources" in case["labels"]:
        kind = case["params"]["PhotonSourceDistribution"]["type"]
        fn = os.path.join(workdir, kind + "_source_positions.txt")
        if not os.path.exists(fn) or os.path.getsize(fn) == 0:
            return r.fail("source log %s_source_positions.txt missing or empty" % kind)
    r.nontrivial = len(new) >= 2
    return r


SUBS = [
    pbt.Sub("component_runs", cases(), check_components, quick=48, thorough=1500, shrink_budget=6, workers=8,
            rule="mode in {task-based photoionization, task-based RHD with radiation, RHD stop+restart with a dump every step}; components outside the set of whole_runs: photon source distributions UniformRandom / DiscPatch / SingleSupernova / Caproni (half with source log; update interval and life times of the order of the time step so that sources die and are born during the run), spectra Planck / Uniform / Masked(Planck, Linear) (+ FaucherGiguere for continuous sources), continuous sources ExtendedDisc / SpiralGalaxy, cross sections Verner / Bimodal, recombination rates Verner, temperature calculation with He / metal abundances (FixedValue, SolarMetallicity model; `Abundances` block in RHD), diffuse field, density functions Homogeneous / DiscPatch / BondiProfile / CoredDMProfile / DiscIC (+ SpiralGalaxy in task-based runs), at most two periodic axes, AsciiFile writer (task-based), Bondi hydro boundaries, DiscPatch / CoredDMProfile potentials, BlockSyntax hydro mask, radiative cooling / heating, stellar feedback, maximum neutral fraction, radiation time; box scales 1e17 / 3e18 / 1e20 m, <= 8^3 cells, <= 2000 packets, 2-3 steps, 1-4 threads; each run under valgrind memcheck (1/3) or the ASan+UBSan build (2/3); non-trivial: >= 2 components that whole_runs never uses",
            floors={"tool-valgrind": 0.1, "tool-asan": 0.3}),
]

if __name__ == "__main__":
    sys.exit(pbt.main("C12", __file__, SUBS))
