#!/usr/local/bin/python3-vt
"""C01 - every photon packet launched in an iteration terminates exactly once.

Hypothesis generates whole-run configurations of the real executable
(`--task-based`, and the radiation part of `--task-based-rhd`); the oracle reads
the per-iteration accounting records written by the CMI_VERIF_ACCOUNT hook:
per-packet event counters (launched per source kind, absorbed, escaped,
re-emitted, not re-emitted) that are independent from the code's own
`num_photon_done` arithmetic, plus what is alive in the shared containers
(buffers, tasks, queue entries, subgrid output slots) before and after the
parallel region.  A second, hook-free observer: without diffuse field the bins
of photon_statistics.txt sum to the number of packets of the last iteration.
"""
import os
import sys

from hypothesis import strategies as st

import cmirun
import pbt

L = 1.0e17  # box size scale in m (tau ~ n sigma L ~ 6 for n = 1e8 m^-3)


def ion_params(case):
    sim = {
        "number of iterations": case["iterations"],
        "number of photons": case["photons"],
        "random seed": case["seed"],
        "number of buffers": case["pools"]["buffers"],
        "queue size per thread": case["pools"]["queue"],
        "shared queue size": case["pools"]["shared_queue"],
        "number of tasks": case["pools"]["tasks"],
        "source copy level": case["copy_level"],
        "diffuse field": case["diffuse"] != "None",
        "output folder": ".",
    }
    p = {
        "SimulationBox": {
            "anchor": cmirun.fmt_vec(case["anchor"], "m"),
            "sides": cmirun.fmt_vec(case["sides"], "m"),
            "periodicity": "[" + ", ".join("true" if x else "false" for x in case["periodic"]) + "]"},
        "DensityGrid": {"type": "Cartesian",
                        "number of cells": "[%d, %d, %d]" % tuple(case["ncell"])},
        "DensitySubGridCreator": {
            "number of subgrids": "[%d, %d, %d]" % tuple(case["nsub"]),
            "periodicity": "[" + ", ".join("true" if x else "false" for x in case["periodic"]) + "]"},
        "DensityFunction": {"type": "BlockSyntax", "filename": "blocks.yml"},
        "DensityGridWriter": {"type": case.get("writer", "Gadget"), "padding": 3, "prefix": "snap_"},
        "TaskBasedIonizationSimulation": sim,
        "PhotonSourceSpectrum": {"type": "Monochromatic", "frequency": "3.28847e+15 Hz"},
        "CrossSections": dict(cmirun.FIXED_XS),
        "RecombinationRates": dict(cmirun.FIXED_REC),
        "TemperatureCalculator": {"do temperature calculation": False},
        "DiffuseReemissionHandler": {"type": case["diffuse"]},
    }
    if case["diffuse"] == "FixedValue":
        p["DiffuseReemissionHandler"]["reemission probability"] = repr(case["reemission_probability"])
        p["DiffuseReemissionHandler"]["reemission frequency"] = "3.4e15 Hz"
    if case["helium"]:
        p["CrossSections"]["helium_0"] = "2.0e-18 cm^2"
        p["RecombinationRates"]["helium_1"] = "2.7e-13 cm^3 s^-1"
        p["AbundanceModel"] = {"type": "FixedValue", "He": "0.1"}
    src = case["source"]
    if src["kind"] == "none":
        p["PhotonSourceDistribution"] = {"type": "None"}
    elif src["kind"] == "single":
        p["PhotonSourceDistribution"] = {"type": "SingleStar",
                                         "luminosity": "0. s^-1" if src.get("zero_luminosity") else "1.e+48 s^-1",
                                         "position": cmirun.fmt_vec(src["positions"][0], "m")}
    else:
        p["PhotonSourceDistribution"] = {"type": "AsciiFile", "filename": "sources.yml"}
    cont = case["continuous"]
    if cont["kind"] != "none":
        p["ContinuousPhotonSource"] = {"type": cont["kind"]}
        if cont["kind"] == "DistantStar":
            p["ContinuousPhotonSource"]["position"] = cmirun.fmt_vec(cont["position"], "m")
        if cont["kind"] == "Planar":
            p["ContinuousPhotonSource"].update({
                "normal axis": cont["axis"], "intercept": "%r m" % cont["intercept"],
                "anchor 0": "%r m" % cont["a0"], "anchor 1": "%r m" % cont["a1"],
                "side 0": "%r m" % cont["s0"], "side 1": "%r m" % cont["s1"],
                "luminosity": "1.e48 s^-1"})
        p["ContinuousPhotonSourceSpectrum"] = {"type": "Monochromatic",
                                               "frequency": "3.28847e+15 Hz",
                                               "total flux": "1.e11 m^-2 s^-1"}
    return p


def sources_yaml(src):
    lines = ["number of sources: %d" % len(src["positions"]), ""]
    for i, (pos, lum) in enumerate(zip(src["positions"], src["luminosities"])):
        lines += ["source[%d]:" % i, "  position: " + cmirun.fmt_vec(pos, "m"),
                  "  luminosity: %r s^-1" % lum, ""]
    return "\n".join(lines) + "\n"


def check_accounting(case, workdir):
    r = pbt.Result()
    files = {}
    if case["source"]["kind"] == "table":
        files["sources.yml"] = sources_yaml(case["source"])
    c2 = dict(case)
    c2["files"] = files
    cmirun.write_case(workdir, c2, ion_params(case))
    env = {"CMI_VERIF_ACCOUNT": "1"}
    if case.get("jitter") is not None:
        env["CMI_VERIF_JITTER"] = case["jitter"]
    args = ["--params", "params.yml", "--task-based", "--threads", str(case["threads"])]
    # normal: 1-3 CPU seconds; a hung iteration busy-waits on all threads
    run = cmirun.run(workdir, args, env, timeout=900, cpu_limit=240)
    nsub = case["nsub"][0] * case["nsub"][1] * case["nsub"][2]
    # labels
    if case["threads"] >= 2:
        r.label("multi-threaded")
    if nsub >= 2:
        r.label("several-subgrids")
    if case["photons"] % 200 != 0:
        r.label("photons-not-multiple-of-buffer")
    if case["copy_level"] > 0:
        r.label("copies")
    if case["diffuse"] != "None":
        r.label("diffuse-" + case["diffuse"])
    if case["continuous"]["kind"] != "none":
        r.label("continuous-" + case["continuous"]["kind"])
    if case["source"]["kind"] != "none" and case["continuous"]["kind"] != "none":
        r.label("discrete+continuous")
    if any(case["periodic"]):
        r.label("periodic")
    if case["source"].get("on_boundary"):
        r.label("source-on-subgrid-boundary")
    if case["source"].get("zero_luminosity"):
        r.label("discrete-source-without-luminosity")
    if case["continuous"]["kind"] != "none" and case["threads"] >= 8 and case["iterations"] >= 6:
        r.label("continuous-endgame(>=8-threads,6-iterations)")
    if run["cpu_exceeded"]:
        recs = cmirun.parse_kv_lines(os.path.join(workdir, "verif_accounting.txt"))
        r.schedule_dependent = case["threads"] > 1
        return r.fail("run did not finish: 240 s of CPU time used up (a normal run needs 1-3 s, up to 20 s on a machine with a load of 130): the iteration never ended; %d accounting records so far; last output: %s" % (
            len(recs), run["out"][-200:].replace("\n", " | ")))
    if run["timeout"]:
        r.inconclusive = "wall-clock limit hit without exhausting the CPU budget (machine overloaded?)"
        return r
    if run["rc"] != 0:
        return r.fail("run failed rc=%s: %s" % (run["rc"], run["out"][-600:].replace("\n", " | ")))
    recs = cmirun.parse_kv_lines(os.path.join(workdir, "verif_accounting.txt"))
    # everything below is read off the accounting records of this run
    r.schedule_dependent = case["threads"] > 1
    begins = [x for x in recs if x["phase"] == "begin"]
    ends = [x for x in recs if x["phase"] == "end"]
    if len(begins) != case["iterations"] or len(ends) != case["iterations"]:
        return r.fail("expected %d iterations, accounting has %d begin / %d end records" % (
            case["iterations"], len(begins), len(ends)))
    I = lambda d, k: int(d[k])
    overflow = False
    for it, (b, e) in enumerate(zip(begins, ends)):
        for k in ("active_buffers", "queue_entries", "shared_queue_entries", "subgrid_slots"):
            if I(b, k) != 0:
                return r.fail("iteration %d starts with %s=%d left over from before" % (it, k, I(b, k)))
        for k in ("launched_discrete", "launched_continuous", "absorbed", "escaped", "reemitted", "not_reemitted"):
            if I(b, k) != 0:
                return r.fail("iteration %d: %d packet events (%s) happened outside the propagation loop" % (it, I(b, k), k))
        req = I(e, "requested")
        if I(e, "handed") != req:
            return r.fail("iteration %d: %d packets requested, %d handed to source tasks" % (it, req, I(e, "handed")))
        launched = I(e, "launched_discrete") + I(e, "launched_continuous")
        if launched != req:
            return r.fail("iteration %d: %d packets requested, %d launched (discrete %d + continuous %d)" % (
                it, req, launched, I(e, "launched_discrete"), I(e, "launched_continuous")))
        if case["source"].get("zero_luminosity") and I(e, "launched_discrete") != 0:
            return r.fail("iteration %d: %d packets launched by a discrete source without luminosity" % (
                it, I(e, "launched_discrete")))
        terminated = I(e, "absorbed") + I(e, "escaped") + I(e, "not_reemitted")
        if terminated != req:
            return r.fail("iteration %d: %d packets requested, %d terminated (absorbed %d + escaped %d + not re-emitted %d)" % (
                it, req, terminated, I(e, "absorbed"), I(e, "escaped"), I(e, "not_reemitted")))
        if I(e, "done") != req:
            return r.fail("iteration %d ended with the termination counter at %d of %d" % (it, I(e, "done"), req))
        if case["diffuse"] == "None" and (I(e, "reemitted") or I(e, "not_reemitted")):
            return r.fail("iteration %d: re-emission events without a diffuse field" % it)
        for k in ("active_buffers", "queue_entries", "shared_queue_entries", "subgrid_slots"):
            if I(e, k) != 0:
                return r.fail("iteration %d ends with %s=%d (left behind for the next iteration)" % (it, k, I(e, k)))
        if I(e, "active_tasks") != I(b, "active_tasks"):
            return r.fail("iteration %d ends with %d active tasks, started with %d" % (
                it, I(e, "active_tasks"), I(b, "active_tasks")))
        if I(e, "reemitted") > 0:
            r.label("reemission-happened")
        if I(e, "escaped") > 0 and I(e, "absorbed") + I(e, "not_reemitted") + I(e, "reemitted") > 0:
            r.label("absorbed-and-escaped")
    # hook-free observer
    if case["diffuse"] == "None":
        sp = os.path.join(workdir, "photon_statistics.txt")
        if os.path.exists(sp):
            tot = 0
            with open(sp) as f:
                for line in f:
                    if not line.startswith("#") and line.strip():
                        tot += int(line.split()[1])
            # the statistics object lives for one iteration; the file is written
            # after the last one
            want = int(ends[-1]["requested"])
            if tot != want:
                return r.fail("photon_statistics.txt counts %d terminated packets in the last iteration, %d were requested" % (tot, want))
    snaps = [f for f in os.listdir(workdir) if f.startswith("snap_") and f.endswith(".hdf5")]
    if not snaps:
        return r.fail("no snapshot written")
    r.nontrivial = case["threads"] >= 2 and nsub >= 2 and case["photons"] % 200 != 0
    return r


@st.composite
def cases(draw):
    skind = draw(st.sampled_from(["single", "single", "table", "table", "none"]))
    ckind = draw(st.sampled_from(["none", "none", "none", "Isotropic", "DistantStar", "Planar"]))
    if skind == "none" and ckind == "none":
        skind = "single"
    # end-of-iteration window (defect F29): with a continuous source the last
    # source task queues one flush task per thread.  They are no-ops that can
    # still be pending when the last packet terminates if every source task
    # filled its buffer exactly (a multiple of 200 packets, one subgrid) -
    # many threads and several iterations then make a dropped task and a hang
    # in the next iteration likely
    endgame = ckind != "none" and draw(st.integers(0, 2)) == 0
    ncell1 = st.sampled_from([4, 6, 8, 12])
    ncell = [draw(ncell1), draw(ncell1), draw(ncell1)]
    nsub = [draw(st.sampled_from([d for d in (1, 2, 3, 4) if n % d == 0])) for n in ncell]
    if endgame and draw(st.booleans()):
        nsub = [1, 1, 1]
    periodic = [draw(st.booleans()) and draw(st.booleans()) for _ in range(3)]
    sides = [L * draw(st.sampled_from([1.0, 1.0, 0.5, 2.0])) for _ in range(3)]
    anchor = [-0.5 * s for s in sides]
    nb = draw(st.integers(1, 3))
    blocks = [{"origin": [0., 0., 0.], "sides": [4 * s for s in sides],
               "density": draw(st.sampled_from([1e7, 1e8, 3e8])), "temperature": 8000.}]
    for _ in range(nb - 1):
        blocks.append({
            "origin": [anchor[i] + sides[i] * draw(st.floats(0.1, 0.9, allow_subnormal=False)) for i in range(3)],
            "sides": [sides[i] * draw(st.floats(0.1, 0.6, allow_subnormal=False)) for i in range(3)],
            "density": draw(st.sampled_from([1e6, 1e9, 1e10])), "temperature": 8000.,
            "type": draw(st.sampled_from(["cube", "sphere"]))})

    def position(on_boundary):
        pos = []
        for i in range(3):
            if on_boundary and nsub[i] > 1:
                k = draw(st.integers(1, nsub[i] - 1))
                pos.append(anchor[i] + sides[i] * k / nsub[i])
            else:
                pos.append(anchor[i] + sides[i] * draw(st.floats(0.02, 0.98, allow_subnormal=False)))
        return pos

    on_b = draw(st.booleans()) and draw(st.booleans())
    source = {"kind": skind, "on_boundary": on_b}
    if skind == "single":
        source["positions"] = [position(on_b)]
    elif skind == "table":
        n = draw(st.integers(2, 5))
        source["positions"] = [position(on_b and j == 0) for j in range(n)]
        source["luminosities"] = [10 ** draw(st.floats(46., 49., allow_subnormal=False)) for _ in range(n)]
    # a discrete distribution without luminosity is switched off by the
    # simulation ("Disabling discrete sources"); legal next to a continuous source
    if ckind != "none" and skind != "none" and draw(st.integers(0, 3)) == 0:
        source["zero_luminosity"] = True
        if skind == "table":
            source["luminosities"] = [0.0 for _ in source["luminosities"]]
    cont = {"kind": ckind}
    if ckind == "DistantStar":
        cont["position"] = [anchor[0] - 3 * sides[0], anchor[1] + 0.3 * sides[1], anchor[2] + 5 * sides[2]]
    if ckind == "Planar":
        ax = draw(st.sampled_from(["x", "y", "z"]))
        i = "xyz".index(ax)
        o = [j for j in range(3) if j != i]
        cont.update({"axis": ax, "intercept": anchor[i] + 0.5 * sides[i],
                     "a0": anchor[o[0]], "a1": anchor[o[1]], "s0": sides[o[0]], "s1": sides[o[1]]})
    photons = draw(st.one_of(st.integers(1, 40), st.integers(41, 5000),
                             st.sampled_from([199, 200, 201, 400, 1000, 2001])))
    diffuse = draw(st.sampled_from(["None", "None", "FixedValue", "Physical"]))
    threads = draw(st.sampled_from([1, 2, 2, 3, 4, 4, 8, 8, 12, 16]))
    if endgame:
        threads = draw(st.sampled_from([8, 12, 16, 16]))
        photons = draw(st.sampled_from([200, 200, 400, 999, 1000, 2001, 4999]))
        if draw(st.booleans()):
            skind = "none"
            source = {"kind": "none", "on_boundary": False}
    tight = draw(st.booleans()) and draw(st.booleans())
    nsubt = nsub[0] * nsub[1] * nsub[2]
    if tight:
        pools = {"buffers": 27 * nsubt * 4 + 64, "queue": 600, "shared_queue": 600, "tasks": 1500}
    else:
        pools = {"buffers": 5000, "queue": 5000, "shared_queue": 5000, "tasks": 20000}
    return {
        "ncell": ncell, "nsub": nsub, "periodic": periodic, "anchor": anchor, "sides": sides,
        "blocks": blocks, "source": source, "continuous": cont, "photons": photons,
        # continuous sources end every iteration with a race-prone hand-over
        # (last source task flushes the partially filled buffers): more iterations
        "iterations": (draw(st.integers(1, 3)) if ckind == "none"
                       else (6 if endgame else draw(st.integers(2, 6)))),
        "seed": draw(st.integers(1, 10 ** 6)),
        "copy_level": draw(st.sampled_from([0, 0, 1, 2, 3])), "diffuse": diffuse,
        "reemission_probability": draw(st.sampled_from([0.364, 0.9, 0.05])),
        "helium": diffuse == "Physical" and draw(st.booleans()),
        "threads": threads, "jitter": draw(st.one_of(st.none(), st.integers(0, 10 ** 6))),
        "pools": pools, "tight_pools": tight,
    }


SUBS = [
    pbt.Sub("accounting_task_based", cases(), check_accounting, quick=256, thorough=6000,
            shrink_budget=10,
            rule="cells {4,6,8,12}^3, subgrids dividing them (1..4 per axis), periodicity, 1-3 density blocks (tau ~ 0.6..60), single / 2-5 tabulated / no discrete sources (25% exactly on a subgrid boundary; next to a continuous source 25% without luminosity, which switches them off), none / isotropic / distant-star / planar continuous source, diffuse field none / fixed value / physical, 1..5000 packets (incl. < number of sources, buffer size +-1), 1-3 iterations (2-6 with a continuous source; one third of those cases are the end-of-iteration class: 8-16 threads, {200,400,999,1000,2001,4999} packets, 6 iterations, half of them with a single subgrid), copy level 0-3, 1..16 threads, seeded jitter, comfortable or tight pools; non-trivial: >=2 threads, >=2 subgrids, packets not a multiple of the buffer size",
            floors={"multi-threaded": 0.5, "several-subgrids": 0.4,
                    "continuous-endgame(>=8-threads,6-iterations)": 0.08}),
]

if __name__ == "__main__":
    sys.exit(pbt.main("C01", __file__, SUBS))
