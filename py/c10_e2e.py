#!/usr/local/bin/python3-vt
"""End-to-end layers of C04 and C10 through the real executable.

c10 (layout_thread_independence): the same hydro problem is run (a) undivided
with one thread, (b) with a generated subgrid layout, 1..16 threads and seeded
scheduling jitter; the full hydro state after every step (hook
CMI_VERIF_STATE) must agree cell by cell up to summation round-off, and two
one-thread runs of (b) must agree bit for bit.
c04 (conservation_e2e): for fully periodic boxes total mass, momentum and energy
recorded by the CMI_VERIF_STEP hook stay constant up to round-off over all
steps; for all boxes every state is finite with non-negative mass and energy.
"""
import math
import os
import sys

from hypothesis import strategies as st

import cmirun
import pbt

CS = 4000.


def read_state(path, case):
    """rows keyed by integer cell index (cell midpoints differ in the last bit
    between layouts, so they cannot be compared directly)"""
    rows = []
    with open(path) as f:
        for line in f:
            v = [float.fromhex(x) for x in line.split()]
            idx = [int(math.floor((v[i] - case["anchor"][i]) / (case["sides"][i] / case["ncell"][i])))
                   for i in range(3)]
            rows.append(idx + v[3:])
    rows.sort(key=lambda v: (v[0], v[1], v[2]))
    return rows


def run(case, workdir, name, nsub, threads, jitter, state=True):
    d = os.path.join(workdir, name)
    c = dict(case)
    c["nsub"] = nsub
    c["pools"] = {"buffers": 200, "queue": 4000, "shared_queue": 4000,
                  "tasks": 18 * nsub[0] * nsub[1] * nsub[2] + 500}
    cmirun.write_case(d, c)
    env = {"CMI_VERIF_STEP": "1"}
    if state:
        env["CMI_VERIF_STATE"] = "1"
    if jitter is not None:
        env["CMI_VERIF_JITTER"] = jitter
    r = cmirun.run(d, ["--params", "params.yml", "--task-based-rhd", "--threads", str(threads),
                       "--number-of-steps", str(case["nsteps"])], env, timeout=900, cpu_limit=180)
    return d, r


def failed(r, name, run_):
    if run_["cpu_exceeded"]:
        r.schedule_dependent = True
        return r.fail("run %s did not finish: 180 s of CPU time used up (normal < 1 s): %s" % (name, run_["out"][-200:].replace("\n", " | ")))
    if run_["timeout"]:
        r.inconclusive = "wall-clock limit hit without exhausting the CPU budget"
        return r
    if run_["rc"] != 0:
        return r.fail("run %s failed rc=%s: %s" % (name, run_["rc"], run_["out"][-400:].replace("\n", " | ")))
    return None


def check_layout(case, workdir):
    r = pbt.Result()
    ref_d, ref = run(case, workdir, "ref", [1, 1, 1], 1, None)
    f = failed(r, "undivided", ref)
    if f:
        return f
    nsub = case["nsub"]
    d1, r1 = run(case, workdir, "lay1", nsub, 1, None)
    f = failed(r, "layout/1 thread", r1)
    if f:
        return f
    d1b, r1b = run(case, workdir, "lay1b", nsub, 1, None)
    f = failed(r, "layout/1 thread (repeat)", r1b)
    if f:
        return f
    dT, rT = run(case, workdir, "layT", nsub, case["threads"], case["jitter"])
    f = failed(r, "layout/%d threads" % case["threads"], rT)
    if f:
        return f
    n = nsub[0] * nsub[1] * nsub[2]
    if n > 1:
        r.label("divided")
    if any(case["periodic"][i] and nsub[i] == 1 for i in range(3)):
        r.label("periodic-single-subgrid-axis")
    if case["threads"] > 1:
        r.label("multi-threaded")
    if case.get("cfl_bound"):
        r.label("time-step-set-by-CFL")
    s1 = cmirun.parse_kv_lines(os.path.join(d1, "verif_hydro_steps.txt"))
    s1b = cmirun.parse_kv_lines(os.path.join(d1b, "verif_hydro_steps.txt"))
    if [x["digest"] for x in s1] != [x["digest"] for x in s1b]:
        return r.fail("two one-thread runs of the same problem are not bit-for-bit identical: digests %s vs %s" % (
            [x["digest"] for x in s1], [x["digest"] for x in s1b]))
    # the time step chosen for every step (an exact power-of-two fraction of
    # the total time) does not depend on layout, thread count or interleaving
    sref = cmirun.parse_kv_lines(os.path.join(ref_d, "verif_hydro_steps.txt"))
    sT = cmirun.parse_kv_lines(os.path.join(dT, "verif_hydro_steps.txt"))
    for name, ss in (("1 thread", s1), ("%d threads" % case["threads"], sT)):
        a = [(x["time"], x["timestep"]) for x in sref]
        b = [(x["time"], x["timestep"]) for x in ss]
        if a != b:
            k = next((i for i in range(min(len(a), len(b))) if a[i] != b[i]), min(len(a), len(b)))
            r.schedule_dependent = (ss is sT and case["threads"] > 1)
            return r.fail("layout %s, %s: step %d is taken at time %s with time step %s, the undivided one-thread run takes it at %s with %s" % (
                nsub, name, k + 1,
                float.fromhex(b[k][0]) if k < len(b) else None, float.fromhex(b[k][1]) if k < len(b) else None,
                float.fromhex(a[k][0]) if k < len(a) else None, float.fromhex(a[k][1]) if k < len(a) else None))
    varnames = ["mass", "px", "py", "pz", "energy", "rho", "vx", "vy", "vz", "P"]
    dyadic = all((nc & (nc - 1)) == 0 for nc in case["ncell"])
    r.label("dyadic-cells" if dyadic else "non-dyadic-cells")
    changed = False
    for step in range(1, case["nsteps"] + 1):
        fn = "verif_hydro_state_%04d.txt" % step
        a = read_state(os.path.join(ref_d, fn), case)
        for name, dd in (("1 thread", d1), ("%d threads" % case["threads"], dT)):
            b = read_state(os.path.join(dd, fn), case)
            if len(a) != len(b):
                return r.fail("step %d: %d cells in the layout run, %d undivided" % (step, len(b), len(a)))
            # scales per variable: max |value| over the grid (sums of fluxes of
            # that magnitude are re-associated by the layout)
            scale = [max(abs(row[3 + k]) for row in a) for k in range(10)]
            vs = max(scale[6], scale[7], scale[8], math.sqrt(max(scale[9], 0.) / max(scale[5], 1e-300)))
            scale[1] = scale[2] = scale[3] = scale[0] * vs
            scale[6] = scale[7] = scale[8] = vs
            for ra, rb in zip(a, b):
                if ra[:3] != rb[:3]:
                    return r.fail("step %d: cell positions differ: %s vs %s" % (step, ra[:3], rb[:3]))
                for k in range(10):
                    x, y = ra[3 + k], rb[3 + k]
                    if not (math.isfinite(x) and math.isfinite(y)):
                        return r.fail("step %d: non-finite %s in cell %s" % (step, varnames[k], ra[:3]))
                    # dyadic cell sizes: every layout derives bit-identical
                    # geometry, only the order of the flux sums differs.  Other
                    # cell sizes differ in the last bit between layouts, which
                    # can flip a limiter/HLLC branch decision in a cell: only
                    # gross differences are reported there
                    # The same holds between thread counts: the order in
                    # which the flux tasks add to a cell depends on the
                    # schedule, the sums differ in the last bit, and the
                    # momentum flux limiter switches on discontinuously at
                    # Mach 1 (Hydro.hpp: "p2 rho > gamma m2 P") - observed: one
                    # cell differing by 4e-6 of the velocity scale in 5 of 6
                    # four-thread runs.  So only the one-thread comparison on
                    # dyadic cells is tight; everything else reports
                    # differences above 1e-4 of the variable's scale.
                    tight = dyadic and dd is d1
                    tol = (1e-11 * step * (abs(x) + 1e-3 * scale[k]) if tight
                           else 1e-4 * step * (abs(x) + scale[k]))
                    if abs(x - y) > tol:
                        # read off the recorded state of a real multi-threaded run
                        r.schedule_dependent = (dd is dT and case["threads"] > 1)
                        return r.fail("step %d, layout %s, %s: %s of cell at %s is %r, undivided run has %r (diff %.3g, tol %.3g)" % (
                            step, nsub, name, varnames[k], ra[:3], y, x, abs(x - y), tol))
        if step > 1:
            changed = True
    r.nontrivial = n > 1 and changed
    return r


def check_conservation(case, workdir):
    r = pbt.Result()
    d, run_ = run(case, workdir, "run", case["nsub"], case["threads"], case["jitter"], state=False)
    f = failed(r, "hydro", run_)
    if f:
        return f
    recs = cmirun.parse_kv_lines(os.path.join(d, "verif_hydro_steps.txt"))
    if len(recs) != case["nsteps"]:
        return r.fail("recorded %d of %d steps" % (len(recs), case["nsteps"]))
    fully_periodic = all(case["periodic"])
    if fully_periodic:
        r.label("fully-periodic")
    H = cmirun.hexf
    first = recs[0]
    m0, e0 = H(first["mass"]), H(first["energy"])
    p0 = [H(first[k]) for k in ("px", "py", "pz")]
    safeguard = False
    for i, rec in enumerate(recs):
        if rec["finite"] != "1":
            return r.fail("step %s: non-finite hydro state" % rec["step"])
        mm, me = H(rec["min_mass"]), H(rec["min_energy"])
        if mm < 0. or me < 0.:
            return r.fail("step %s: negative cell mass (%g) or energy (%g)" % (rec["step"], mm, me))
        if mm == 0. or me == 0.:
            safeguard = True
    if safeguard:
        r.label("safeguard-active")
    r.schedule_dependent = case["threads"] > 1
    if fully_periodic and not safeguard:
        last = recs[-1]
        n = len(recs)
        m1, e1 = H(last["mass"]), H(last["energy"])
        p1 = [H(last[k]) for k in ("px", "py", "pz")]
        vs = math.sqrt(2. * e0 / m0)
        if abs(m1 - m0) > 1e-12 * n * m0:
            return r.fail("periodic box: total mass %r -> %r over %d steps (rel %.3g)" % (m0, m1, n - 1, abs(m1 / m0 - 1.)))
        if abs(e1 - e0) > 1e-12 * n * e0:
            return r.fail("periodic box: total energy %r -> %r over %d steps (rel %.3g)" % (e0, e1, n - 1, abs(e1 / e0 - 1.)))
        for k in range(3):
            if abs(p1[k] - p0[k]) > 1e-12 * n * m0 * vs:
                return r.fail("periodic box: total momentum[%d] %r -> %r over %d steps (scale %.3g)" % (k, p0[k], p1[k], n - 1, m0 * vs))
    r.nontrivial = fully_periodic and not safeguard and len(recs) >= 2
    return r


@st.composite
def hydro_cases(draw, force_periodic=None):
    ncell = [draw(st.sampled_from([2, 4, 8, 2, 4, 8, 3, 6])) for _ in range(3)]
    nsub = [draw(st.sampled_from([d for d in range(1, 5) if n % d == 0])) for n in ncell]
    if force_periodic is None:
        periodic = [draw(st.booleans()) for _ in range(3)]
    else:
        periodic = [force_periodic] * 3
    sides = [draw(st.sampled_from([1.0, 0.5, 2.0, 0.25])) for _ in range(3)]  # dyadic: cell sizes identical across layouts (HLLC is ill-conditioned next to near-vacuum cells)
    anchor = [-s * draw(st.sampled_from([0.5, 0.25, 0.])) for s in sides]
    nb = draw(st.integers(2, 4))
    blocks = [{"origin": [anchor[i] + 0.5 * sides[i] for i in range(3)],
               "sides": [4 * s for s in sides], "density": 1e10, "temperature": 1000.,
               "velocity": [draw(st.floats(-1, 1, allow_subnormal=False)) * CS for _ in range(3)]}]
    for _ in range(nb - 1):
        blocks.append({
            "origin": [anchor[i] + sides[i] * draw(st.floats(0.1, 0.9, allow_subnormal=False)) for i in range(3)],
            "sides": [sides[i] * draw(st.floats(0.2, 0.8, allow_subnormal=False)) for i in range(3)],
            "density": draw(st.sampled_from([1e8, 3e10, 1e11])),
            "temperature": draw(st.sampled_from([100., 3000., 20000.])),
            "velocity": [draw(st.floats(-2, 2, allow_subnormal=False)) * CS for _ in range(3)],
            "type": draw(st.sampled_from(["cube", "sphere"]))})
    dt = 0.05 * min(sides[i] / ncell[i] for i in range(3)) / (3. * CS)
    # half of the cases leave the choice of the time step to the CFL criterion
    # (no binding maximum): the step then depends on the minimum over all
    # subgrids, which every thread count has to find
    cfl_bound = draw(st.booleans())
    threads = draw(st.sampled_from([1, 2, 4, 8, 16]))
    if cfl_bound:
        threads = draw(st.sampled_from([2, 4, 8, 16]))
        # one small hot, fast region decides the time step
        blocks.append({
            "origin": [anchor[i] + sides[i] * draw(st.sampled_from([0.1, 0.3, 0.6, 0.9])) for i in range(3)],
            "sides": [sides[i] * 0.15 for i in range(3)],
            "density": 1e10, "temperature": draw(st.sampled_from([1e5, 1e6])),
            "velocity": [0., 0., 0.], "type": "cube"})
    return {
        "ncell": ncell, "nsub": nsub, "periodic": periodic, "anchor": anchor, "sides": sides,
        "boundary": [draw(st.sampled_from(["reflective", "reflective", "inflow", "outflow"])) for _ in range(3)],
        "blocks": blocks, "gamma": draw(st.sampled_from([5. / 3., 1.4, 1.0001, 2.0])),
        # (CFL-bound cases: the total time is far away, so that the run does
        # not end before the requested number of steps)
        "total_time": dt * (65536 if cfl_bound else 64),
        "max_dt": (dt * 65536 if cfl_bound else dt * draw(st.sampled_from([1.0, 0.37, 2.0]))),
        "cfl_bound": cfl_bound,
        "nsteps": draw(st.integers(3, 4)) if cfl_bound else draw(st.integers(2, 4)),
        "threads": threads,
        "jitter": draw(st.one_of(st.none(), st.integers(0, 10 ** 6))),
    }


SUBS = [
    pbt.Sub("layout_thread_independence", hydro_cases(), check_layout, quick=96, thorough=2000,
            shrink_budget=6,
            rule="2..8 cells per axis, layouts dividing them (1..4 subgrids per axis incl. periodic axes with a single subgrid), periodic/reflective/inflow/outflow boundaries, 2-4 blocks, gamma in {5/3,1.4,1.0001,2}, 2-4 steps, 1..16 threads, jitter; in half of the cases the time step is left to the CFL criterion (a small hot region decides it, 2..16 threads, 3-4 steps); oracle: full state per step vs the undivided one-thread run (tolerance 1e-11*step*(|x|+1e-3 scale) for one thread on dyadic cells, otherwise 1e-4*step*(|x|+scale): decision flips of the discontinuous flux limiter amplify last-bit differences), two one-thread runs bitwise; non-trivial: divided grid and >= 2 steps",
            floors={"divided": 0.5, "dyadic-cells": 0.25}),
    pbt.Sub("conservation_e2e", st.one_of(hydro_cases(True), hydro_cases()), check_conservation,
            quick=96, thorough=3000, shrink_budget=6,
            rule="same generator, half of the cases fully periodic; totals recorded by the hook: mass/energy relative drift <= 1e-12 per step, momentum <= 1e-12*M*sqrt(2E/M) per step, unless the positivity safeguard was active (a cell with exactly zero mass or energy); always finite and non-negative; non-trivial: fully periodic, no safeguard",
            floors={"fully-periodic": 0.3}),
]

if __name__ == "__main__":
    pid = os.environ.get("VERIF_PID", "C10")
    sys.exit(pbt.main(pid, __file__, SUBS))
