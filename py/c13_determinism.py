#!/usr/local/bin/python3-vt
"""C13 (end-to-end layer) - same seed, same input, one thread => identical output.

A generated photoionization problem is run twice with the same seed and
`--threads 1`: every snapshot must be byte-identical (after blanking the
"Creation time" string attribute).  With a different seed the final snapshot
must differ, which guards against a vacuous "nothing random happens" pass.
"""
import hashlib
import os
import re
import sys

from hypothesis import strategies as st

import cmirun
import pbt
import c01_accounting as c01

STAMP = re.compile(rb"\d\d/\d\d/\d{4}, \d\d:\d\d:\d\d")
MTIME = re.compile(rb"(\x12\x00\x08\x00\x00\x00\x00\x00\x01\x00\x00\x00)....", re.S)


def snapshot_digests(workdir):
    out = {}
    for f in sorted(os.listdir(workdir)):
        if f.endswith(".hdf5") or f.endswith(".txt") and f.startswith("snap_"):
            data = open(os.path.join(workdir, f), "rb").read()
            data = STAMP.sub(b"00/00/0000, 00:00:00", data)
            # HDF5 object headers carry a modification-time message (type 0x12,
            # size 8, version 1, 4-byte unix time): wall clock, blank it
            data = MTIME.sub(lambda m: m.group(1) + b"\0\0\0\0", data)
            out[f] = hashlib.sha1(data).hexdigest()
    return out


def run_once(case, workdir, name, seed):
    d = os.path.join(workdir, name)
    c = dict(case)
    c["seed"] = seed
    files = {}
    if c["source"]["kind"] == "table":
        files["sources.yml"] = c01.sources_yaml(c["source"])
    c["files"] = files
    cmirun.write_case(d, c, c01.ion_params(c))
    r = cmirun.run(d, ["--params", "params.yml", "--task-based", "--threads", "1"], timeout=600, cpu_limit=120)
    return d, r


def check_determinism(case, workdir):
    r = pbt.Result()
    runs = []
    # seed 0 is documented to map to seed 1: for it the third run uses seed 1
    # and must be IDENTICAL; for every other seed the third run uses another
    # seed and must differ
    other = 1 if case["seed"] == 0 else case["seed"] + 1 + case["seed_delta"]
    for name, seed in (("a", case["seed"]), ("b", case["seed"]), ("c", other)):
        d, run = run_once(case, workdir, name, seed)
        if run["timeout"]:
            r.inconclusive = "run timed out"
            return r
        if run["rc"] != 0:
            return r.fail("run %s failed rc=%s: %s" % (name, run["rc"], run["out"][-400:].replace("\n", " | ")))
        runs.append(snapshot_digests(d))
    a, b, c = runs
    if case["diffuse"] != "None":
        r.label("diffuse")
    if case["continuous"]["kind"] != "none":
        r.label("continuous-source")
    if set(a) != set(b):
        return r.fail("the two identical runs wrote different file sets: %s vs %s" % (sorted(a), sorted(b)))
    for f in sorted(a):
        if a[f] != b[f]:
            return r.fail("snapshot %s differs between two runs with the same seed %d and one thread" % (f, case["seed"]))
    last = sorted(a)[-1]
    r.nontrivial = case["photons"] >= 100
    r.label("writer-" + case["writer"])
    if case["writer"] != "AsciiFile":
        # the HDF5 snapshot embeds the parameter file (incl. the seed), so runs
        # with different seeds cannot be compared byte-wise through it
        return r
    if case["seed"] == 0:
        r.label("seed-0")
        if a[last] != c.get(last):
            return r.fail("final snapshot %s differs between seed 0 and seed 1 (seed 0 maps to 1)" % last)
        return r
    if case["photons"] >= 100 and a[last] == c.get(last):
        return r.fail("final snapshot %s is identical for seeds %d and %d: the seed has no effect" % (
            last, case["seed"], case["seed"] + 1 + case["seed_delta"]))
    return r


@st.composite
def cases(draw):
    c = draw(c01.cases())
    c["threads"] = 1
    c["jitter"] = None
    c["photons"] = draw(st.sampled_from([100, 333, 1000, 2500, 4000]))
    c["iterations"] = draw(st.integers(1, 3))
    c["seed"] = draw(st.one_of(st.integers(1, 2 ** 31 - 2), st.sampled_from([0, 0, 0, 1, 42, 2 ** 31 - 2])))
    c["seed_delta"] = draw(st.integers(0, 1000))
    c["writer"] = draw(st.sampled_from(["AsciiFile", "AsciiFile", "Gadget"]))
    return c


SUBS = [
    pbt.Sub("same_seed_same_output", cases(), check_determinism, quick=64, thorough=1200,
            shrink_budget=6,
            rule="photoionization problems from the C01 generator (grids, layouts, source mixes, diffuse field, copies) with 100..4000 packets, 1-3 iterations, seeds over the 31-bit range incl. 0 (which must behave as seed 1); runs a,b with the same seed and one thread must write byte-identical snapshots (creation-time attribute blanked), run c with another seed must differ (compared through the ASCII writer, whose files contain cell data only); non-trivial: >= 100 packets"),
]

if __name__ == "__main__":
    sys.exit(pbt.main("C13", __file__, SUBS))
