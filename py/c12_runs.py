#!/usr/local/bin/python3-vt
"""C12 - complete runs end normally without touching invalid or uninitialised
memory.

Hypothesis generates whole-run configurations (mode x optional components x
threads x tiny problem); each configuration is run
  (a) under valgrind memcheck (uninitialised-value errors included), and
  (b) with the ASan+UBSan build of the executable.
Oracle: exit status 0, the expected outputs exist and are non-empty HDF5 files,
zero memcheck errors, zero sanitizer reports.
"""
import os
import sys

from hypothesis import strategies as st

import cmirun
import pbt
import c01_accounting as c01

ROOT = os.path.dirname(os.path.dirname(os.path.abspath(__file__)))
L = 1.0e17
CS = 4000.


def rhd_case(draw, radiation):
    ncell = [draw(st.sampled_from([4, 6, 8])) for _ in range(3)]
    nsub = [draw(st.sampled_from([d for d in (1, 2, 3, 4) if n % d == 0])) for n in ncell]
    periodic = [draw(st.booleans()) for _ in range(3)]
    cubic = draw(st.booleans())
    sides = [L] * 3 if cubic else [L * draw(st.sampled_from([1.0, 0.5, 2.0])) for _ in range(3)]
    anchor = [-0.5 * s for s in sides]
    blocks = [{"origin": [0., 0., 0.], "sides": [4 * s for s in sides], "density": 1e8,
               "temperature": 1000., "velocity": [0.3 * CS, -0.2 * CS, 0.1 * CS]},
              {"origin": [0.1 * sides[0], -0.2 * sides[1], 0.15 * sides[2]],
               "sides": [0.4 * s for s in sides], "density": 1e9, "temperature": 8000.,
               "velocity": [-CS, 0.5 * CS, 0.], "type": draw(st.sampled_from(["cube", "sphere"]))}]
    dt = 0.05 * min(sides[i] / ncell[i] for i in range(3)) / (3. * CS)
    case = {
        "ncell": ncell, "nsub": nsub, "periodic": periodic, "anchor": anchor, "sides": sides,
        "boundary": [draw(st.sampled_from(["reflective", "inflow", "outflow"])) for _ in range(3)],
        "blocks": blocks, "gamma": draw(st.sampled_from([5. / 3., 1.0001])),
        "total_time": dt * 64, "max_dt": dt, "nsteps": draw(st.integers(1, 4)),
        "radiation": radiation, "photons": draw(st.sampled_from([1, 150, 200, 777, 2000])),
        "iterations": draw(st.integers(1, 2)), "diffuse": radiation and draw(st.booleans()),
        "copy_level": draw(st.sampled_from([0, 0, 1, 2])),
        "radiative_heating": radiation and draw(st.booleans()),
        "restart_interval": draw(st.sampled_from([0.0, 1e30])),
        "backups": draw(st.sampled_from([0, 1, 3])),
        "pools": {"buffers": 3000, "queue": 3000, "shared_queue": 3000, "tasks": 8000},
        "extra": {}, "files": {},
    }
    opts = {}
    if draw(st.booleans()):
        opts["live_output"] = {
            "surface": draw(st.booleans()), "ionized": draw(st.booleans()),
            "density_pdf": draw(st.booleans()), "velocity_pdf": draw(st.booleans())}
        case["extra"]["LiveOutputManager"] = {
            "enabled": True,
            "output surface density": opts["live_output"]["surface"],
            "output ionized surface density": opts["live_output"]["ionized"],
            "output density PDF": opts["live_output"]["density_pdf"],
            "output velocity PDF": opts["live_output"]["velocity_pdf"],
            "minimum density": "1.e-22 kg m^-3", "maximum density": "1.e-15 kg m^-3",
            "maximum velocity": "1.e5 m s^-1", "output interval": "%r s" % (dt * 2)}
    if draw(st.booleans()) and draw(st.booleans()):
        opts["mask"] = True
        case["use_mask"] = True
        case["extra"]["HydroMask"] = {"type": "RescaledIC", "center": cmirun.fmt_vec([0., 0., 0.], "m"),
                                      "radius": "%r m" % (0.2 * min(sides)), "delta t": "%r s" % (dt * 2)}
    if cubic and draw(st.booleans()) and draw(st.booleans()):
        opts["turbulence"] = True
        case["turbulence"] = True
        case["extra"]["TurbulenceForcing"] = {"forcing power": "1.e-12 m^2 s^-3",
                                              "time step": "%r s" % (dt * 0.5), "random seed": 7}
    if draw(st.booleans()) and draw(st.booleans()):
        opts["gravity"] = True
        case["gravity"] = True
        case["extra"]["ExternalPotential"] = {"type": "PointMass",
                                              "position": cmirun.fmt_vec([0.013 * sides[0], 0., 0.], "m"),
                                              "mass": "1.e25 kg"}
    case["opts"] = opts
    return case


@st.composite
def cases(draw):
    mode = draw(st.sampled_from(["task-based", "task-based", "rhd-radiation", "rhd-hydro",
                                 "rhd-hydro", "rhd-restart"]))
    threads = draw(st.sampled_from([1, 2, 3, 4]))
    flags = []
    if mode == "task-based":
        ion = draw(c01.cases())
        ion["threads"] = threads
        ion["photons"] = min(ion["photons"], 2000)
        ion["jitter"] = None
        # every other discrete+continuous case: the discrete distribution has
        # no luminosity and is switched off by the constructor
        if (ion["continuous"]["kind"] != "none" and ion["source"]["kind"] != "none"
                and draw(st.booleans())):
            ion["source"]["zero_luminosity"] = True
            if ion["source"]["kind"] == "table":
                ion["source"]["luminosities"] = [0.0 for _ in ion["source"]["luminosities"]]
        for f in ("--every-iteration-output", "--no-initial-output", "--task-plot"):
            if draw(st.booleans()) and draw(st.booleans()):
                flags.append(f)
        trackers = draw(st.booleans()) and draw(st.booleans())
        if trackers:
            # 1-4 trackers at generated positions (fractions of the box); in
            # half of the cases two or three of them share a grid cell (the
            # manager then wraps them in a MultiTracker)
            nt = draw(st.integers(1, 4))
            frac = st.sampled_from([0.125, 0.25, 0.375, 0.5, 0.625, 0.75, 0.875])
            pos = [[draw(frac), draw(frac), draw(frac)] for _ in range(nt)]
            if nt >= 2 and draw(st.booleans()):
                pos[1] = [x + 1e-3 for x in pos[0]]
                if nt >= 3 and draw(st.booleans()):
                    pos[2] = list(pos[0])
            trackers = {"positions": pos,
                        "types": [draw(st.sampled_from(["Spectrum", "Spectrum", "WeightedSpectrum", "Absorption"]))
                                  for _ in range(nt)]}
        return {"mode": mode, "threads": threads, "flags": flags, "ion": ion, "trackers": trackers,
                "tool": draw(st.sampled_from(["valgrind", "asan", "asan"]))}
    rhd = rhd_case(draw, mode == "rhd-radiation" or (mode == "rhd-restart" and draw(st.booleans())))
    if mode == "rhd-restart":
        rhd["restart_interval"] = 0.0  # a dump must exist to restart from
    for f in ("--every-iteration-output",):
        if draw(st.booleans()) and draw(st.booleans()):
            flags.append(f)
    taskplot = draw(st.sampled_from([0, 0, 0, 2]))
    # a task pool only a little larger than the hydro tasks (18 per subgrid):
    # the radiation tasks of one step (several iterations) then wrap around the
    # pool index; at most ~50 of them exist at the same time (source tasks +
    # full buffers + one premature launch per idle thread), so the capacity is
    # not exhausted.  Not with a task plot (tasks are then kept, not freed).
    if rhd["radiation"] and taskplot == 0 and draw(st.booleans()):
        nsubt = rhd["nsub"][0] * rhd["nsub"][1] * rhd["nsub"][2]
        rhd["pools"] = dict(rhd["pools"], tasks=18 * nsubt + draw(st.sampled_from([150, 250])))
        rhd["photons"] = 2000
        rhd["iterations"] = draw(st.sampled_from([3, 5]))
        rhd["opts"]["task-pool-wraps"] = True
        rhd["nsteps"] = min(rhd["nsteps"], 2)
        # (10 iterations of 2000 packets are too slow under valgrind)
        return {"mode": mode, "threads": threads, "flags": flags, "rhd": rhd, "taskplot": taskplot,
                "tool": "asan"}
    return {"mode": mode, "threads": threads, "flags": flags, "rhd": rhd, "taskplot": taskplot,
            "tool": draw(st.sampled_from(["valgrind", "asan", "asan"]))}


def tool_setup(tool, workdir):
    if tool == "valgrind":
        prefix = ["valgrind", "--error-exitcode=99", "--leak-check=no", "-q",
                  "--suppressions=" + os.path.join(ROOT, "py", "c12_valgrind.supp")]
        return prefix, None, {}, 400
    return None, cmirun.EXE_ASAN, {
        "ASAN_OPTIONS": "detect_leaks=0:abort_on_error=0:exitcode=98",
        "UBSAN_OPTIONS": "halt_on_error=1:exitcode=97:print_stacktrace=1"}, 200


def classify_output(run, tool):
    out = run["out"]
    if tool == "valgrind":
        lines = [l for l in out.split("\n") if l.startswith("==")]
        if run["rc"] == 99 or lines:
            return "valgrind memcheck: " + " | ".join(lines[:14])
    else:
        if "AddressSanitizer" in out or "runtime error:" in out or run["rc"] in (97, 98):
            i = out.find("ERROR: AddressSanitizer")
            if i < 0:
                i = out.find("runtime error:")
            return "sanitizer report: " + out[max(0, i - 200):i + 1500].replace("\n", " | ")
    return None


def check_run(case, workdir):
    r = pbt.Result()
    tool = case["tool"]
    prefix, exe, env, timeout = tool_setup(tool, workdir)
    r.label("tool-" + tool)
    r.label("mode-" + case["mode"])
    nopt = 0
    runs = []
    if case["mode"] == "task-based":
        ion = case["ion"]
        files = {}
        if ion["source"]["kind"] == "table":
            files["sources.yml"] = c01.sources_yaml(ion["source"])
        params = c01.ion_params(ion)
        if ion["source"].get("zero_luminosity"):
            nopt += 1
            r.label("opt-discrete-source-without-luminosity")
        if ion["continuous"]["kind"] != "none":
            r.label("opt-continuous-" + ion["continuous"]["kind"])
        if case["trackers"]:
            nopt += 1
            r.label("trackers")
            params["TaskBasedIonizationSimulation"]["enable trackers"] = True
            params["TrackerManager"] = {"filename": "trackers.yml"}
            a, s = ion["anchor"], ion["sides"]
            tr = case["trackers"]
            if tr is True:  # (cases saved before the trackers were generated)
                tr = {"positions": [[0.5, 0.5, 0.5], [0.25, 0.25, 0.25]], "types": ["Spectrum", "Spectrum"]}
            lines = ["number of trackers: %d" % len(tr["positions"]), ""]
            for i, (fr, ty) in enumerate(zip(tr["positions"], tr["types"])):
                lines += ["tracker[%d]:" % i, "  type: " + ty,
                          "  position: " + cmirun.fmt_vec([a[k] + fr[k] * s[k] for k in range(3)], "m")]
                if ty == "Spectrum" and i % 2 == 1:
                    lines.append("  number of bins: 50")
                lines.append("")
            files["trackers.yml"] = "\n".join(lines) + "\n"
            cells = set()
            for fr in tr["positions"]:
                cells.add(tuple(int(fr[k] * ion["ncell"][k]) for k in range(3)))
            if len(cells) < len(tr["positions"]):
                r.label("trackers-sharing-a-cell")
        c2 = dict(ion)
        c2["files"] = files
        cmirun.write_case(workdir, c2, params)
        nopt += (ion["diffuse"] != "None") + (ion["continuous"]["kind"] != "none") + len(case["flags"])
        args = ["--params", "params.yml", "--task-based", "--threads", str(case["threads"])] + case["flags"]
        runs.append(args)
    else:
        rhd = case["rhd"]
        cmirun.write_case(workdir, rhd)
        nopt += len(rhd["opts"]) + bool(rhd["diffuse"]) + len(case["flags"]) + bool(case["taskplot"])
        for o in rhd["opts"]:
            r.label("opt-" + o)
        base = ["--params", "params.yml", "--task-based-rhd", "--threads", str(case["threads"])] + case["flags"]
        if case["taskplot"]:
            base += ["--task-plot-rhd", str(case["taskplot"])]
        if case["mode"] == "rhd-restart":
            k = max(1, rhd["nsteps"] // 2)
            runs.append(base + ["--number-of-steps", str(k)])
            runs.append(base + ["--number-of-steps", str(rhd["nsteps"] + 1), "--restart", "."])
        else:
            runs.append(base + ["--number-of-steps", str(rhd["nsteps"])])
    for i, args in enumerate(runs):
        run = cmirun.run(workdir, args, env, timeout=timeout, exe=exe, prefix=prefix)
        if run["timeout"]:
            r.inconclusive = "run %d did not finish within %d s under %s" % (i, timeout, tool)
            return r
        bad = classify_output(run, tool)
        # a memory-checker report or a crash of a multi-threaded run was
        # observed on real threads: it counts even if a re-run takes another
        # interleaving
        r.schedule_dependent = case["threads"] > 1
        if bad:
            return r.fail("run %d (%s): %s" % (i, " ".join(args[2:]), bad))
        if run["rc"] == -9:
            r.inconclusive = "run %d was killed (SIGKILL: out of memory on a loaded machine?)" % i
            return r
        if run["rc"] != 0:
            return r.fail("run %d (%s) exited with status %s: %s" % (
                i, " ".join(args[2:]), run["rc"], run["out"][-700:].replace("\n", " | ")))
    snaps = [f for f in os.listdir(workdir) if f.endswith(".hdf5")]
    if not snaps:
        return r.fail("no snapshot written")
    for f in snaps:
        with open(os.path.join(workdir, f), "rb") as fh:
            if fh.read(8) != b"\x89HDF\r\n\x1a\n":
                return r.fail("output %s is not an HDF5 file" % f)
    r.nontrivial = nopt >= 2 or case["mode"] == "rhd-restart"
    return r


SUBS = [
    pbt.Sub("whole_runs", cases(), check_run, quick=96, thorough=2400, shrink_budget=6,
            rule="mode in {task-based photoionization, task-based RHD with radiation, hydro only, stop+restart}; optional components: live output with each sub-output, 1-4 trackers of every type (half of the cases with trackers sharing a grid cell), hydro mask, turbulence forcing, external point mass, diffuse field, continuous sources (with a discrete distribution that has no luminosity in half of the mixed cases), subgrid copies, task plots, a task pool that wraps around within a step (radiation runs), -e, --no-initial-output; 1-4 threads; <= 12^3 cells, <= 2000 packets, <= 4 steps; each run under valgrind memcheck (1/3) or the ASan+UBSan build (2/3); non-trivial: >= 2 optional components or restart mode",
            floors={"tool-valgrind": 0.15, "tool-asan": 0.3}),
]

if __name__ == "__main__":
    sys.exit(pbt.main("C12", __file__, SUBS))
