#!/usr/local/bin/python3-vt
"""C09 (end-to-end layer) - a pure hydro run that is dumped after step k and
restarted continues bit-identically.

For a generated problem: run A does N steps without interruption; run B stops
after k1 (< N) steps, is restarted, optionally stopped and restarted again
(chains), and finishes at step N.  Oracle: the per-step state digests written
by the CMI_VERIF_STEP hook for every step after a restart equal those of run A,
the final restart.dump is byte-identical beyond the leading wall-clock timers,
and the totals/times agree bit for bit.
"""
import os
import shutil
import sys

from hypothesis import strategies as st

import cmirun
import pbt

TIMER_BYTES = 192  # four Timer objects (3 x 16 bytes each) lead the dump (wall-clock values)


def end_of_maps(data, off):
    """offset just after the two std::map<string,string> of the ParameterFile"""
    import struct
    for _ in range(2):
        (n,) = struct.unpack_from("<Q", data, off)
        off += 8
        for _ in range(2 * n):
            (l,) = struct.unpack_from("<Q", data, off)
            off += 8 + l
    return off


def steps_of(workdir):
    recs = cmirun.parse_kv_lines(os.path.join(workdir, "verif_hydro_steps.txt"))
    return {int(r["step"]): r for r in recs}


def run_steps(workdir, nsteps, threads, restart):
    args = ["--params", "params.yml", "--task-based-rhd", "--threads", str(threads),
            "--number-of-steps", str(nsteps)]
    if restart:
        args += ["--restart", "."]
    return cmirun.run(workdir, args, {"CMI_VERIF_STEP": "1"}, timeout=600, cpu_limit=120)


def check_restart(case, workdir):
    r = pbt.Result()
    N = case["nsteps"]
    stops = case["stops"]
    a = os.path.join(workdir, "A")
    b = os.path.join(workdir, "B")
    cmirun.write_case(a, case)
    cmirun.write_case(b, case)
    non_dyadic = any(abs((case["sides"][i] / case["ncell"][i]) * case["ncell"][i] / case["sides"][i] - 1.) > 0
                     or (case["ncell"][i] & (case["ncell"][i] - 1)) != 0 for i in range(3))
    if non_dyadic:
        r.label("non-dyadic-cell-size")
    if len(stops) > 1:
        r.label("restart-chain")
    for comp in ("use_mask", "gravity", "turbulence", "live_output"):
        if case.get(comp):
            r.label("component-" + comp)
    if any(case["periodic"]):
        r.label("periodic")
    ra = run_steps(a, N, 1, False)
    if ra["timeout"] and not ra["cpu_exceeded"]:
        r.inconclusive = "wall-clock limit hit without exhausting the CPU budget"
        return r
    if ra["timeout"] or ra["rc"] != 0:
        # the uninterrupted run itself must work for the comparison to mean anything
        return r.fail("uninterrupted run failed: rc=%s timeout=%s: %s" % (
            ra["rc"], ra["timeout"], ra["out"][-400:].replace("\n", " | ")))
    sa = steps_of(a)
    # (the warning is printed in a box that breaks lines anywhere)
    if ("Prematurely stopping simulation" in " ".join(ra["out"].split()) and sa
            and sorted(sa) == list(range(1, len(sa) + 1)) and len(sa) < N):
        # documented behaviour: a requested time step below the configured
        # minimum ends the run (the generated flow blew up).  The comparison is
        # done for the steps that exist; the restarted chain has to end at the
        # same step.
        r.label("premature-stop(time-step-below-minimum)")
        N = len(sa)
        stops = [k for k in stops if k < N]
        if not stops:
            return r
    if sorted(sa) != list(range(1, N + 1)):
        return r.fail("uninterrupted run recorded steps %s, expected 1..%d" % (sorted(sa), N))
    first = True
    for k in stops + [N]:
        rb = run_steps(b, k, 1, not first)
        first = False
        if rb["timeout"] and not rb["cpu_exceeded"]:
            r.inconclusive = "wall-clock limit hit without exhausting the CPU budget"
            return r
        if rb["timeout"] or rb["rc"] != 0:
            return r.fail("run stopped/restarted at %s failed (target step %d): rc=%s timeout=%s: %s" % (
                stops, k, rb["rc"], rb["timeout"], rb["out"][-400:].replace("\n", " | ")))
    sb = steps_of(b)
    if sorted(sb) != list(range(1, N + 1)):
        return r.fail("stop/restart chain %s recorded steps %s, expected each of 1..%d once" % (
            stops, sorted(sb), N))
    changed = len({sa[s]["digest"] for s in sa}) > 1
    for s in range(1, N + 1):
        for key in ("digest", "time", "timestep", "mass", "px", "py", "pz", "energy"):
            if sa[s][key] != sb[s][key]:
                return r.fail("step %d after stop/restart at %s: %s = %s, uninterrupted run has %s" % (
                    s, stops, key, sb[s][key], sa[s][key]))
    da = open(os.path.join(a, "restart.dump"), "rb").read()
    db = open(os.path.join(b, "restart.dump"), "rb").read()
    if len(da) != len(db):
        return r.fail("final restart.dump has %d bytes after stop/restart, %d uninterrupted" % (len(db), len(da)))
    # layout: 4 timers | parameter maps | [mask] | lastsnap(8) lastrad(8) random_seed(8) | grid ...
    # random_seed is the deliberately re-seeded photon stream: the only field
    # besides the timers that may differ
    seed_off = end_of_maps(da, TIMER_BYTES) + 16
    diffs = [i for i in range(TIMER_BYTES, len(da)) if da[i] != db[i]]
    if case.get("use_mask"):
        # the mask sits between the maps and the seed: its size is not known
        # here, so accept one field of at most 8 bytes after the maps
        bad = [i for i in diffs if not (seed_off <= diffs[0] and i - diffs[0] < 8)]
    else:
        bad = [i for i in diffs if not (seed_off <= i < seed_off + 8)]
    if bad:
        return r.fail("final restart.dump differs from the uninterrupted run at byte %d of %d (%d differing bytes outside the timers and the re-seeded random seed at %d)" % (
            bad[0], len(da), len(bad), seed_off))
    r.nontrivial = changed and (non_dyadic or len(stops) > 1 or any(case.get(c) for c in ("use_mask", "gravity", "turbulence", "live_output")))
    return r


@st.composite
def cases(draw):
    ncell = [draw(st.integers(3, 12)) for _ in range(3)]
    nsub = [draw(st.sampled_from([d for d in range(1, 5) if n % d == 0])) for n in ncell]
    periodic = [draw(st.booleans()) for _ in range(3)]
    dyadic = draw(st.booleans()) and draw(st.booleans())
    if dyadic:
        sides = [draw(st.sampled_from([0.5, 1.0, 2.0, 4.0])) for _ in range(3)]
        anchor = [draw(st.sampled_from([0., -1., 0.25])) for _ in range(3)]
    else:
        unit = draw(st.sampled_from([1.0, 3.0856e16]))
        sides = [draw(st.sampled_from([1.1, 0.3, 2.512, 1.0, 3.3e16 / 3.0e16, 0.7])) * unit
                 for _ in range(3)]
        anchor = [-s * draw(st.sampled_from([0.5, 0.1, 1. / 3., 0.])) for s in sides]
    scale = max(sides)
    nb = draw(st.integers(2, 4))
    cs = 4000.  # ~ sound speed scale m/s
    blocks = [{"origin": [anchor[i] + 0.5 * sides[i] for i in range(3)],
               "sides": [4 * s for s in sides], "density": 1e10, "temperature": 1000.,
               "velocity": [draw(st.floats(-1, 1, allow_subnormal=False)) * cs for _ in range(3)]}]
    for _ in range(nb - 1):
        blocks.append({
            "origin": [anchor[i] + sides[i] * draw(st.floats(0.1, 0.9, allow_subnormal=False)) for i in range(3)],
            "sides": [sides[i] * draw(st.floats(0.2, 0.8, allow_subnormal=False)) for i in range(3)],
            "density": draw(st.sampled_from([1e9, 3e10, 1e11])),
            "temperature": draw(st.sampled_from([100., 3000., 20000.])),
            "velocity": [draw(st.floats(-2, 2, allow_subnormal=False)) * cs for _ in range(3)],
            "type": draw(st.sampled_from(["cube", "sphere"]))})
    N = draw(st.integers(3, 8))
    nstop = draw(st.sampled_from([1, 1, 1, 2, 3]))
    stops = sorted(set(draw(st.integers(1, N - 1)) for _ in range(nstop)))
    dt = 0.02 * min(sides[i] / ncell[i] for i in range(3)) / (3. * cs)
    extra = {}
    comp = {}
    if draw(st.booleans()) and draw(st.booleans()):
        comp["use_mask"] = True
        extra["HydroMask"] = {"type": "RescaledIC",
                              "center": cmirun.fmt_vec([anchor[i] + 0.5 * sides[i] for i in range(3)], "m"),
                              "radius": "%r m" % (0.3 * min(sides)), "delta t": "%r s" % (dt * 2)}
    if draw(st.booleans()) and draw(st.booleans()):
        comp["gravity"] = True
        extra["ExternalPotential"] = {"type": "PointMass",
                                      "position": cmirun.fmt_vec([anchor[i] + 0.51 * sides[i] for i in range(3)], "m"),
                                      "mass": "%r kg" % (1e-3 * cs * cs * min(sides) / 6.674e-11)}
    if sides[0] == sides[1] == sides[2] and draw(st.booleans()):
        comp["turbulence"] = True
        extra["TurbulenceForcing"] = {"forcing power": "%r m^2 s^-3" % (1e-2 * cs ** 3 / sides[0]),
                                      "time step": "%r s" % (dt * 0.7), "random seed": draw(st.integers(1, 1000))}
    if draw(st.booleans()) and draw(st.booleans()):
        comp["live_output"] = True
        extra["LiveOutputManager"] = {"enabled": True, "output surface density": True,
                                      "output density PDF": True, "output velocity PDF": True,
                                      "minimum density": "1.e-22 kg m^-3", "maximum density": "1.e-12 kg m^-3",
                                      "maximum velocity": "1.e5 m s^-1", "output interval": "%r s" % (dt * 2)}
    base = dict(comp)
    base["extra"] = extra
    base.update({
        "ncell": ncell, "nsub": nsub, "periodic": periodic, "anchor": anchor, "sides": sides,
        "boundary": [draw(st.sampled_from(["reflective", "reflective", "inflow", "outflow"])) for _ in range(3)],
        "blocks": blocks, "gamma": draw(st.sampled_from([5. / 3., 1.4, 1.0001, 2.0])),
        "total_time": dt * 64, "max_dt": dt * draw(st.sampled_from([1.0, 0.37, 2.0])),
        "nsteps": N, "stops": stops, "restart_interval": 0.0,
        "backups": draw(st.sampled_from([0, 1, 2])),
        "pools": {"buffers": 200, "queue": 2000, "shared_queue": 2000,
                  "tasks": 18 * nsub[0] * nsub[1] * nsub[2] + 500},
    })
    return base


SUBS = [
    pbt.Sub("continue_after_restart", cases(), check_restart, quick=2400, thorough=60000,
            shrink_budget=8,
            rule="box with dyadic (25%) or arbitrary decimal sides/anchors, optional components (hydro mask, external point mass, turbulence forcing on cubic boxes, live output), 3..12 cells per axis, layouts dividing them, periodic/reflective/inflow/outflow boundaries, 2-4 density/temperature/velocity blocks, gamma in {5/3,1.4,1.0001,2}, N=3..8 steps, 1-3 stop points; one thread; non-trivial: the state changes during the run and (cell size not dyadic, or a chain of restarts)",
            floors={"non-dyadic-cell-size": 0.4}),
]

if __name__ == "__main__":
    sys.exit(pbt.main(os.environ.get("VERIF_PID", "C09"), __file__, SUBS))
