#!/usr/local/bin/python3-vt
"""C07 - hydro task graph: every task once, in order, conflict-free, finishes.

L0 (static_tables): for a generated (layout, periodicity) the task tables the
    real program builds (hook CMI_VERIF_TABLES=exit) are compared with a model
    written from the scheme: which tasks exist, their partners, the dependency
    edges with multiplicity, the parent counters at the start of a step, the
    lock sets (distinct lock objects, ordered), acyclicity.  The quick tier
    draws layouts at random, the thorough tier enumerates all 4x4x4x8.
L1 (dynamic_trace): the real worker loop under 1..16 threads with seeded
    scheduling jitter; from the task event trace (hook CMI_VERIF_TRACE): every
    task exactly once per step, no child before its parents finished, no two
    tasks touching the same subgrid overlapping, the run terminates.
"""
import os
import re
import sys

from hypothesis import strategies as st

import cmirun
import pbt

REPO = os.environ.get("VERIF_REPO") or "/repo"


def parse_enum(path, prefix):
    names = []
    with open(path) as f:
        for line in f:
            m = re.match(r"\s*(%s\w+)\s*(=\s*0)?\s*,?\s*$" % prefix, line)
            if m:
                names.append(m.group(1))
    return {n: i for i, n in enumerate(names)}


TT = parse_enum(os.path.join(REPO, "src", "Task.hpp"), "TASKTYPE_")
TD = parse_enum(os.path.join(REPO, "src", "TravelDirections.hpp"), "TRAVELDIRECTION_")
FACE = {(0, +1): TD["TRAVELDIRECTION_FACE_X_P"], (0, -1): TD["TRAVELDIRECTION_FACE_X_N"],
        (1, +1): TD["TRAVELDIRECTION_FACE_Y_P"], (1, -1): TD["TRAVELDIRECTION_FACE_Y_N"],
        (2, +1): TD["TRAVELDIRECTION_FACE_Z_P"], (2, -1): TD["TRAVELDIRECTION_FACE_Z_N"]}
G_INT = TT["TASKTYPE_GRADIENTSWEEP_INTERNAL"]
G_NGB = TT["TASKTYPE_GRADIENTSWEEP_EXTERNAL_NEIGHBOUR"]
G_BND = TT["TASKTYPE_GRADIENTSWEEP_EXTERNAL_BOUNDARY"]
SLOPE = TT["TASKTYPE_SLOPE_LIMITER"]
PRED = TT["TASKTYPE_PREDICT_PRIMITIVES"]
F_INT = TT["TASKTYPE_FLUXSWEEP_INTERNAL"]
F_NGB = TT["TASKTYPE_FLUXSWEEP_EXTERNAL_NEIGHBOUR"]
F_BND = TT["TASKTYPE_FLUXSWEEP_EXTERNAL_BOUNDARY"]
UPD_C = TT["TASKTYPE_UPDATE_CONSERVED"]
UPD_P = TT["TASKTYPE_UPDATE_PRIMITIVES"]
PAIR_TYPES = (G_NGB, F_NGB)


def base_case(nsub, periodic, cells_per_sub=(2, 2, 2)):
    ncell = [nsub[i] * cells_per_sub[i] for i in range(3)]
    return {
        "ncell": ncell, "nsub": list(nsub), "periodic": [bool(x) for x in periodic],
        "anchor": [0., 0., 0.], "sides": [1., 1., 1.],
        "blocks": [
            {"origin": [0.5, 0.5, 0.5], "sides": [1, 1, 1], "density": 1e10,
             "temperature": 1000., "velocity": [100., -50., 25.]},
            {"origin": [0.4, 0.45, 0.55], "sides": [0.4, 0.3, 0.5], "density": 4e10,
             "temperature": 3000., "velocity": [0., 200., -100.]}],
        "gamma": 5. / 3., "total_time": 1e-3, "max_dt": 1e-5,
        "pools": {"buffers": 100, "queue": 2000, "shared_queue": 2000,
                  "tasks": 18 * nsub[0] * nsub[1] * nsub[2] + 200},
    }


def parse_tables(workdir):
    tasks = {}
    locks = {}
    path = os.path.join(workdir, "verif_hydro_tasks.txt")
    for rec in cmirun.parse_kv_lines(path):
        if "task" in rec:
            t = int(rec["task"])
            ch = [int(x) for x in rec.get("children", "").split(",") if x != ""]
            tasks[t] = {"slot": int(rec["slot"]), "owner": int(rec["owner"]),
                        "type": int(rec["type"]), "subgrid": int(rec["subgrid"]),
                        "partner": int(rec["partner"]), "direction": int(rec["direction"]),
                        "lock0": rec["lock0"], "lock1": rec["lock1"], "children": ch}
        elif "lock" in rec and "subgrid" in rec:
            locks[int(rec["subgrid"])] = rec["lock"]
    parents = {}
    queued = None
    for rec in cmirun.parse_kv_lines(os.path.join(workdir, "verif_hydro_tasks_reset.txt")):
        if "task" in rec:
            parents[int(rec["task"])] = int(rec["parents"])
        if "queued" in rec:
            queued = int(rec["queued"])
    return tasks, locks, parents, queued


def model(nsub, periodic):
    """Expected task multiset per subgrid and expected edges, written from the
    scheme (not from the code): returns list of expected tasks as tuples
    (kind, subgrid, partner, direction) and edges between such tuples with
    multiplicity."""
    nx, ny, nz = nsub

    def idx(c):
        return (c[0] * ny + c[1]) * nz + c[2]

    def ngb(c, ax, sgn):
        d = list(c)
        d[ax] += sgn
        n = nsub[ax]
        if 0 <= d[ax] < n:
            return idx(d)
        if periodic[ax]:
            d[ax] %= n
            return idx(d)
        return None

    exp = []           # tasks
    edges = []         # (parent_tuple, child_tuple)
    coords = [(i, j, k) for i in range(nx) for j in range(ny) for k in range(nz)]
    for c in coords:
        s = idx(c)
        exp += [("G_INT", s, None, None), ("SLOPE", s, None, None), ("PRED", s, None, None),
                ("F_INT", s, None, None), ("UPD_C", s, None, None), ("UPD_P", s, None, None)]
        for ax in range(3):
            p = ngb(c, ax, +1)
            if p is None:
                exp += [("G_BND", s, None, FACE[(ax, +1)]), ("F_BND", s, None, FACE[(ax, +1)])]
            else:
                exp += [("G_NGB", s, p, FACE[(ax, +1)]), ("F_NGB", s, p, FACE[(ax, +1)])]
            if ngb(c, ax, -1) is None:
                exp += [("G_BND", s, None, FACE[(ax, -1)]), ("F_BND", s, None, FACE[(ax, -1)])]
    # edges: every gradient task touching s -> SLOPE(s); SLOPE->PRED; PRED(s) ->
    # every flux task touching s; every flux task touching s -> UPD_C(s); UPD_C->UPD_P
    for t in exp:
        kind, s, p, d = t
        touched = [s] + ([p] if p is not None else [])
        if kind.startswith("G_"):
            for x in touched:
                edges.append((t, ("SLOPE", x, None, None)))
        if kind.startswith("F_"):
            for x in touched:
                edges.append((("PRED", x, None, None), t))
                edges.append((t, ("UPD_C", x, None, None)))
        if kind == "SLOPE":
            edges.append((t, ("PRED", s, None, None)))
        if kind == "UPD_C":
            edges.append((t, ("UPD_P", s, None, None)))
    return exp, edges


KIND = {G_INT: "G_INT", G_NGB: "G_NGB", G_BND: "G_BND", SLOPE: "SLOPE", PRED: "PRED",
        F_INT: "F_INT", F_NGB: "F_NGB", F_BND: "F_BND", UPD_C: "UPD_C", UPD_P: "UPD_P"}


def task_tuple(t):
    kind = KIND.get(t["type"])
    if kind is None:
        return ("UNKNOWN-%d" % t["type"], t["subgrid"], None, None)
    partner = t["partner"] if t["type"] in PAIR_TYPES else None
    direction = t["direction"] if kind in ("G_NGB", "G_BND", "F_NGB", "F_BND") else None
    return (kind, t["subgrid"], partner, direction)


def check_static(case, workdir):
    r = pbt.Result()
    nsub, periodic = case["nsub"], case["periodic"]
    cmirun.write_case(workdir, case)
    run = cmirun.run(workdir, ["--params", "params.yml", "--task-based-rhd", "--threads", "1",
                               "--number-of-steps", "1"],
                     {"CMI_VERIF_TABLES": "exit"}, timeout=900, cpu_limit=180)
    if run["timeout"] and not run["cpu_exceeded"]:
        r.inconclusive = "wall-clock limit hit without exhausting the CPU budget"
        return r
    if run["timeout"] or run["rc"] != 0:
        return r.fail("program did not reach the task tables: rc=%s timeout=%s\n%s" % (
            run["rc"], run["timeout"], run["out"][-600:]))
    tasks, locks, parents, queued = parse_tables(workdir)
    n = nsub[0] * nsub[1] * nsub[2]
    r.nontrivial = n >= 2 or any(periodic)
    for ax in range(3):
        if periodic[ax] and nsub[ax] == 1:
            r.label("periodic-single-subgrid-axis")
        if periodic[ax] and nsub[ax] == 2:
            r.label("periodic-two-subgrid-axis")
    if any(periodic):
        r.label("periodic")
    exp, edges = model(nsub, periodic)
    got = {}
    for tid, t in tasks.items():
        got.setdefault(task_tuple(t), []).append(tid)
    # 1. task multiset
    from collections import Counter
    ce, cg = Counter(exp), Counter({k: len(v) for k, v in got.items()})
    if ce != cg:
        missing = list((ce - cg).elements())[:4]
        extra = list((cg - ce).elements())[:4]
        return r.fail("task set differs from the scheme: missing %s extra %s" % (missing, extra))
    tid_of = {k: v[0] for k, v in got.items()}
    # 2. edges with multiplicity
    eexp = Counter((tid_of[a], tid_of[b]) for a, b in edges)
    egot = Counter()
    for tid, t in tasks.items():
        for c in t["children"]:
            egot[(tid, c)] += 1
        if len(t["children"]) > 7:
            return r.fail("task %d has %d children (capacity 7)" % (tid, len(t["children"])))
    if eexp != egot:
        missing = list((eexp - egot).elements())[:4]
        extra = list((egot - eexp).elements())[:4]
        def nm(e):
            return "%s->%s" % (task_tuple(tasks[e[0]]), task_tuple(tasks.get(e[1], {"type": -1, "subgrid": -1, "partner": -1, "direction": -1})))
        return r.fail("dependency edges differ from the scheme: missing %s extra %s" % (
            [nm(e) for e in missing], [nm(e) for e in extra]))
    # 3. parent counters at the start of a step == in-degree with multiplicity
    indeg = Counter()
    for (a, b), m in egot.items():
        indeg[b] += m
    for tid in tasks:
        if parents.get(tid) != indeg.get(tid, 0):
            return r.fail("task %d %s starts the step with %s unfinished parents, in-degree is %d" % (
                tid, task_tuple(tasks[tid]), parents.get(tid), indeg.get(tid, 0)))
    nroot = sum(1 for tid in tasks if indeg.get(tid, 0) == 0)
    if queued != nroot:
        return r.fail("%s tasks queued at the start of the step, %d have no parents" % (queued, nroot))
    # 4. acyclic (Kahn)
    deg = dict((tid, indeg.get(tid, 0)) for tid in tasks)
    ready = [t for t, d in deg.items() if d == 0]
    done = 0
    while ready:
        t = ready.pop()
        done += 1
        for c in tasks[t]["children"]:
            deg[c] -= 1
            if deg[c] == 0:
                ready.append(c)
    if done != len(tasks):
        return r.fail("task graph has a cycle or unreachable tasks: %d of %d sorted" % (done, len(tasks)))
    # 5. locks: one distinct lock per subgrid; a task locks exactly the subgrids
    # it touches, two *different* lock objects for two different subgrids,
    # ordered by subgrid index; never the same object twice
    if len(set(locks.values())) != n or len(locks) != n:
        return r.fail("subgrid locks are not pairwise distinct objects")
    for tid, t in tasks.items():
        touched = {t["subgrid"]}
        if t["type"] in PAIR_TYPES:
            touched.add(t["partner"])
        want = [locks[s] for s in sorted(touched)]
        have = [l for l in (t["lock0"], t["lock1"]) if l != "(nil)"]
        if t["lock0"] == t["lock1"] and t["lock0"] != "(nil)":
            return r.fail("task %d %s holds the same lock object twice (can never be handed out)" % (
                tid, task_tuple(t)))
        if have != want:
            return r.fail("task %d %s locks %s, should lock subgrids %s = %s (in this order)" % (
                tid, task_tuple(t), have, sorted(touched), want))
    return r


def parse_trace(workdir):
    steps = {}
    path = os.path.join(workdir, "verif_hydro_trace.txt")
    if not os.path.exists(path):
        return steps
    with open(path) as f:
        for line in f:
            p = line.split()
            if len(p) != 8:
                continue
            step, seq, kind, task, typ, thread, sub, partner = p
            steps.setdefault(int(step), []).append(
                (int(seq), kind, int(task), int(typ), int(thread), int(sub), int(partner)))
    return steps


def check_dynamic(case, workdir):
    r = pbt.Result()
    cmirun.write_case(workdir, case)
    nsteps = case["nsteps"]
    env = {"CMI_VERIF_TABLES": "1", "CMI_VERIF_TRACE": "1", "CMI_VERIF_STEP": "1"}
    if case.get("jitter") is not None:
        env["CMI_VERIF_JITTER"] = case["jitter"]
    run = cmirun.run(workdir, ["--params", "params.yml", "--task-based-rhd", "--threads",
                               str(case["threads"]), "--number-of-steps", str(nsteps)],
                     env, timeout=900, cpu_limit=180)
    n = case["nsub"][0] * case["nsub"][1] * case["nsub"][2]
    if case["threads"] >= 2:
        r.label("multi-threaded")
    if any(case["periodic"][ax] and case["nsub"][ax] <= 2 for ax in range(3)):
        r.label("periodic-short-axis")
    if run["cpu_exceeded"]:
        in_step = "Starting hydro step" in run["out"]
        if in_step:
            r.schedule_dependent = case["threads"] > 1
            return r.fail("hydro step did not terminate: 180 s of CPU time used up (a normal run needs < 1 s); last output: %s" % (
                run["out"][-200:].replace("\n", " | ")))
        r.inconclusive = "CPU budget used up outside a hydro step"
        return r
    if run["timeout"]:
        r.inconclusive = "wall-clock limit hit without exhausting the CPU budget (machine overloaded?)"
        return r
    if run["rc"] != 0:
        return r.fail("run failed: rc=%s: %s" % (run["rc"], run["out"][-500:].replace("\n", " | ")))
    tasks, locks, parents, queued = parse_tables(workdir)
    steps = parse_trace(workdir)
    # everything below is read off the recorded trace of this run
    r.schedule_dependent = case["threads"] > 1
    if sorted(steps) != list(range(1, nsteps + 1)):
        return r.fail("trace covers steps %s, expected 1..%d" % (sorted(steps), nsteps))
    stolen = False
    for step, ev in steps.items():
        ev.sort()
        begin, end, thread_of = {}, {}, {}
        for seq, kind, task, typ, thread, sub, partner in ev:
            d = begin if kind == "B" else end
            if task in d:
                return r.fail("step %d: task %d %s executed more than once" % (
                    step, task, task_tuple(tasks[task]) if task in tasks else "?"))
            d[task] = seq
            thread_of[task] = thread
        for tid in tasks:
            if tid not in begin or tid not in end:
                return r.fail("step %d: task %d %s was never executed" % (step, tid, task_tuple(tasks[tid])))
        for tid in begin:
            if tid not in tasks:
                return r.fail("step %d: unknown task %d executed" % (step, tid))
            if not begin[tid] < end[tid]:
                return r.fail("step %d: task %d ends before it starts" % (step, tid))
        # order
        for tid, t in tasks.items():
            for c in t["children"]:
                if not end[tid] < begin[c]:
                    return r.fail("step %d: task %d %s started (seq %d) before its parent %d %s finished (seq %d)" % (
                        step, c, task_tuple(tasks[c]), begin[c], tid, task_tuple(t), end[tid]))
        # exclusion per subgrid
        per = {}
        for tid, t in tasks.items():
            touched = {t["subgrid"]}
            if t["type"] in PAIR_TYPES:
                touched.add(t["partner"])
            for s in touched:
                per.setdefault(s, []).append((begin[tid], end[tid], tid))
        for s, iv in per.items():
            iv.sort()
            for a, b in zip(iv, iv[1:]):
                if b[0] < a[1]:
                    return r.fail("step %d: tasks %d %s and %d %s overlap on subgrid %d ([%d,%d] vs [%d,%d])" % (
                        step, a[2], task_tuple(tasks[a[2]]), b[2], task_tuple(tasks[b[2]]), s,
                        a[0], a[1], b[0], b[1]))
            if len({thread_of[x[2]] for x in iv}) > 1:
                stolen = True
    if stolen:
        r.label("subgrid-served-by-several-threads")
    r.nontrivial = case["threads"] >= 2 and n >= 2 and stolen
    return r


layout = st.tuples(st.integers(1, 4), st.integers(1, 4), st.integers(1, 4))
periodic = st.tuples(st.booleans(), st.booleans(), st.booleans())


@st.composite
def static_cases(draw):
    return base_case(draw(layout), draw(periodic))


@st.composite
def dynamic_cases(draw):
    nsub = draw(layout)
    per = draw(periodic)
    cps = (draw(st.integers(1, 3)), draw(st.integers(1, 3)), draw(st.integers(1, 3)))
    c = base_case(nsub, per, cps)
    c["threads"] = draw(st.sampled_from([1, 2, 2, 3, 4, 4, 6, 8, 8, 12, 16]))
    c["jitter"] = draw(st.one_of(st.none(), st.integers(0, 10 ** 6)))
    c["nsteps"] = draw(st.integers(2, 4))
    return c


def exhaustive_static(case, workdir):
    """thorough tier: enumerate all 64 layouts <= 4^3 x 8 periodicities"""
    from concurrent.futures import ThreadPoolExecutor
    r = pbt.Result()
    r.nontrivial = True
    jobs = []
    for nx in range(1, 5):
        for ny in range(1, 5):
            for nz in range(1, 5):
                for pm in range(8):
                    jobs.append(((nx, ny, nz), (bool(pm & 1), bool(pm & 2), bool(pm & 4))))

    def one(j):
        nsub, per = j
        sub = os.path.join(workdir, "l%d%d%d_%d%d%d" % (nsub + tuple(int(x) for x in per)))
        os.makedirs(sub)
        rr = check_static(base_case(nsub, per), sub)
        return j, rr

    with ThreadPoolExecutor(16) as ex:
        for j, rr in ex.map(one, jobs):
            if not rr.ok:
                return r.fail("layout %s periodic %s: %s" % (j[0], j[1], rr.msg))
    r.label("layouts-x-periodicities-enumerated-%d" % len(jobs))
    return r


SUBS = [
    pbt.Sub("static_tables", static_cases(), check_static, quick=192, thorough=0,
            rule="layout (1..4)^3 x 8 periodicities drawn at random; task tables of the real program vs. a model of the scheme (task multiset, edges with multiplicity, parent counters, acyclic, lock sets); non-trivial: >=2 subgrids or a periodic axis"),
    pbt.Sub("static_tables_exhaustive", st.just({"enumerate": "all"}),
            exhaustive_static, quick=0, thorough=1, workers=1, shrink_budget=0,
            rule="thorough tier: one evaluation enumerates all 64 layouts <= 4x4x4 x 8 periodicity combinations (512 table dumps) against the same model"),
    pbt.Sub("dynamic_trace", dynamic_cases(), check_dynamic, quick=256, thorough=4000, shrink_budget=6,
            rule="layout (1..4)^3, periodicity, 1..3 cells per subgrid and axis, threads in {1..16}, seeded jitter on/off, 2-4 steps; trace invariants: exactly once, parents before children, mutual exclusion per subgrid, termination; non-trivial: >=2 threads, >=2 subgrids and a subgrid served by several threads",
            floors={"multi-threaded": 0.5}),
]

if __name__ == "__main__":
    sys.exit(pbt.main("C07", __file__, SUBS))
